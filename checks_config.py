"""Per-property check configuration for ./check (harness lists, bounds, stated assumptions)."""

FH = "./runner/ptrace/filehandler"

PROPS = {}
HOOK_COMMITS = []

# Properties not (yet) claimed, with the reason.  Kept current as checks are added.
NOT_APPLICABLE = {("C%02d" % k): "check not built yet in this session (engine and harness under construction; see DESIGN.md §5)" for k in range(1, 21)}

PROPS["C18"] = dict(
    level="other",
    level_text=("Bounded symbolic execution of the real path-set and counter code: every query byte, entry byte and counter value is an SMT "
                "variable, each assertion is discharged by z3 for all values per path, all paths within the stated length bounds are enumerated "
                "(exhaustive within bounds). Right level because the property quantifies over all strings/sets, which only a solver covers."),
    level_note=("Trusted: the symgo interpreter's SSA semantics (validated by native replay of every counterexample and by concrete self-tests), "
                "z3's answers, the reference covers() definition in the harness; realPath is a stub returning an arbitrary string."),
    explanation=("Bounded symbolic execution of the real FileSet/FileSets/Handler/SyscallCounter code (go/ssa of /repo's working tree, "
                 "re-encoded every run) with every path byte, every entry byte, the SystemRoot flags and the counter value as SMT "
                 "bit-vector variables; each path's assertions (admitted => covered by the reference definition, covered => admitted, "
                 "writable=>readable=>statable, refusal = Ban iff soft-ban set covers else Kill, counter step) are discharged by z3 for "
                 "all values on that path; sat answers are replayed natively against the compiled package before being reported."),
    bounds={"query path": "<=5 bytes quick / <=7 thorough, every byte value, restricted to '' or filepath.Clean-stable absolute paths",
            "entries per set": "1 (quick) / 2 (thorough) raw map entries of <=4/5 symbolic bytes + symbolic SystemRoot flag",
            "cascade instances": "fixed entry lengths per instance (see harness names), all bytes symbolic",
            "counter": "one inductive step from an arbitrary 64-bit counter value (> -2^62)"},
    outside=["filepath.EvalSymlinks itself (realPath is a stub returning an arbitrary clean-stable string or '')",
             "relative or non-clean query paths (the tracer never presents them)", "longer paths/entries than the stated bounds"],
    assumptions=["realPath stub: arbitrary result", "map iteration order is irrelevant to the code under test"],
    harnesses=[
        dict(pkg=FH, run="^VerifC18_InSet_Quick$", tiers=["quick", "thorough"], replay="native", reach=["admitted", "refused"]),
        dict(pkg=FH, run="^VerifC18_Counter$", tiers=["quick", "thorough"], replay="native", reach=["counted", "uncounted", "refused-then-again"]),
        dict(pkg=FH, run="^VerifC18_Cascade_Q1$", tiers=["quick", "thorough"], replay="native", reach=["allow", "ban", "kill"]),
        dict(pkg=FH, run="^VerifC18_Cascade_Q2$", tiers=["quick", "thorough"], replay="native", reach=["allow", "ban", "kill"]),
        dict(pkg=FH, run="^VerifC18_InSet_Thorough$", tiers=["thorough"], replay="native", timeout=3000, reach=["admitted", "refused"]),
        dict(pkg=FH, run="^VerifC18_Cascade_T1$", tiers=["thorough"], replay="native", timeout=1800),
        dict(pkg=FH, run="^VerifC18_Cascade_T2$", tiers=["thorough"], replay="native", timeout=3000),
        dict(pkg=FH, run="^VerifC18_Cascade_T3$", tiers=["thorough"], replay="native", timeout=1800),
        dict(pkg=FH, run="^VerifC18_Cascade_T4$", tiers=["thorough"], replay="native", timeout=1800),
    ],
)
