"""Per-property check configuration for ./check (harness lists, bounds, stated assumptions)."""

FH = "./runner/ptrace/filehandler"
LS = "./pkg/seccomp/libseccomp"
PT = "./ptracer"
US = "./runner/unshare"
CT = "./container"
RP = "./runner/ptrace"
FE = "./pkg/forkexec"

SYMEX_NOTE = ("Trusted: the symgo interpreter's SSA semantics (checked by native replay of counterexamples and concrete self-tests), z3's verdicts "
              "(unknown/timeout/error never count as success), and the reference definitions/oracles written in the harness. ")


PROPS = {}
HOOK_COMMITS = []

# Properties not (yet) claimed, with the reason.  Kept current as checks are added.
NOT_APPLICABLE = {("C%02d" % k): "check not built yet in this session (engine and harness under construction; see DESIGN.md §5)" for k in range(1, 21)}

PROPS["C18"] = dict(
    level="other",
    level_text=("Bounded symbolic execution of the real path-set and counter code: every query byte, entry byte and counter value is an SMT "
                "variable, each assertion is discharged by z3 for all values per path, all paths within the stated length bounds are enumerated "
                "(exhaustive within bounds). Right level because the property quantifies over all strings/sets, which only a solver covers."),
    level_note=("Trusted: the symgo interpreter's SSA semantics (validated by native replay of every counterexample and by concrete self-tests), "
                "z3's answers, the reference covers() definition in the harness; realPath is a stub returning an arbitrary string."),
    explanation=("Bounded symbolic execution of the real FileSet/FileSets/Handler/SyscallCounter code (go/ssa of /repo's working tree, "
                 "re-encoded every run) with every path byte, every entry byte, the SystemRoot flags and the counter value as SMT "
                 "bit-vector variables; each path's assertions (admitted => covered by the reference definition, covered => admitted, "
                 "writable=>readable=>statable, refusal = Ban iff soft-ban set covers else Kill, counter step) are discharged by z3 for "
                 "all values on that path; sat answers are replayed natively against the compiled package before being reported."),
    bounds={"query path": "<=5 bytes quick / <=7 thorough, every byte value, restricted to '' or filepath.Clean-stable absolute paths",
            "entries per set": "1 (quick) / 2 (thorough) raw map entries of <=4/5 symbolic bytes + symbolic SystemRoot flag",
            "cascade instances": "fixed entry lengths per instance (see harness names), all bytes symbolic",
            "counter": "one inductive step from an arbitrary 64-bit counter value (> -2^62)"},
    outside=["filepath.EvalSymlinks itself (realPath is a stub returning an arbitrary clean-stable string or '')",
             "relative or non-clean query paths (the tracer never presents them)", "longer paths/entries than the stated bounds"],
    assumptions=["realPath stub: arbitrary result", "map iteration order is irrelevant to the code under test"],
    harnesses=[
        dict(pkg=FH, run="^VerifC18_InSet_Quick$", tiers=["quick", "thorough"], replay="native", reach=["admitted", "refused"]),
        dict(pkg=FH, run="^VerifC18_Counter$", tiers=["quick", "thorough"], replay="native", reach=["counted", "uncounted", "refused-then-again"]),
        dict(pkg=FH, run="^VerifC18_Cascade_Q1$", tiers=["quick", "thorough"], replay="native", reach=["allow", "ban", "kill"]),
        dict(pkg=FH, run="^VerifC18_Cascade_Q2$", tiers=["quick", "thorough"], replay="native", reach=["allow", "ban", "kill"]),
        dict(pkg=FH, run="^VerifC18_InSet_Thorough$", tiers=["thorough"], replay="native", timeout=3000, reach=["admitted", "refused"]),
        dict(pkg=FH, run="^VerifC18_Cascade_T1$", tiers=["thorough"], replay="native", timeout=1800),
        dict(pkg=FH, run="^VerifC18_Cascade_T2$", tiers=["thorough"], replay="native", timeout=3000),
        dict(pkg=FH, run="^VerifC18_Cascade_T3$", tiers=["thorough"], replay="native", timeout=1800),
        dict(pkg=FH, run="^VerifC18_Cascade_T4$", tiers=["thorough"], replay="native", timeout=1800),
    ],
)

PROPS["C01"] = dict(
    level="translation_validation",
    level_text=("Translation validation of the generated seccomp program: the real Builder.Build -> go-seccomp-bpf Policy.Assemble -> x/net/bpf.Assemble "
                "-> sockFilter -> SockFprog pipeline is executed symbolically (syscall numbers of the policy, the 32-bit Default word, nr, arch, ip and the "
                "six argument words are SMT variables) and the resulting []SockFilter is run through a model of the kernel's cBPF evaluator; z3 shows the "
                "returned action equals the policy's for all 2^32 numbers x all arch tags per policy shape. One symbolic run covers every policy with "
                "|allow|=k,|trace|=m; shapes crossing the 255-instruction short-jump limit are validated with concrete numbers and symbolic inputs."),
    level_note=SYMEX_NOTE + "The 90-line cBPF evaluator/validator in the harness stands for the kernel (seccomp_check_filter instruction subset).",
    technique="symbolic execution of the filter generator + symbolic cBPF evaluation, z3 (translation validation per policy shape)",
    explanation=("Real code Build/ToSeccompAction/ExportBPF/sockFilter/SockFprog + interpreted go-seccomp-bpf and x/net/bpf; symbolic policy numbers, default word, "
                 "and filter input; oracle = policy semantics from the property; cleanTrace checked for disjointness/precedence with symbolic names."),
    bounds={"symbolic-number policy shapes (k allow, m trace)": "quick and thorough: (0,0),(1,0),(0,1),(1,1),(2,1),(2,2),(3,2), numbers pairwise distinct < 2^30",
            "concrete-number shapes": "quick: (40,0); thorough adds (80,0),(130,130),(255,1),(256,0),(300,60) (numbers 3i+1), nr/arch/default/args symbolic",
            "cleanTrace": "<=3 allow and <=3 trace names, each a 2-byte symbolic string"},
    outside=["argument-conditioned rules (the repo never emits them)", "non-amd64 build targets", "policies larger than the listed shapes",
             "that the kernel's BPF interpreter matches the model beyond the instruction subset used"],
    assumptions=["arch.GetInfo stub returns an x86-64 Info whose name table maps placeholder names to symbolic numbers",
                 "kernel cBPF semantics as modelled in evalSeccompBPF/kernelAccepts"],
    programs_fn=lambda rs: len(rs),
    harnesses=[dict(pkg=LS, run="^VerifC01_%s$" % n, tiers=["quick", "thorough"], replay="model",
                    reach=(["foreign-arch", "x32", "default"] + (["allow"] if not n.startswith("k0") else []) + (["trace"] if not n.endswith("m0") else [])))
               for n in ["k0m0", "k1m0", "k0m1", "k1m1", "k2m1", "k2m2", "k3m2", "k40m0"]] +
              [dict(pkg=LS, run="^VerifC01_%s$" % n, tiers=["thorough"], replay="model", timeout=3000) for n in ["k80m0", "k130m130", "k255m1", "k256m0", "k300m60"]] +
              [dict(pkg="./cmd/runprog/config", run="^VerifC01_CleanTrace$", tiers=["quick", "thorough"], replay="native", reach=["traced", "overlap"])],
)

PROPS["C09"] = dict(
    level="other",
    level_text=("Bounded symbolic execution of the three classification sites (ptracer handle(), unshare.Run's wait loop incl. canceller goroutine, container "
                "convertReply composed with host convertReplyResult) with the full 32-bit wait-status word, rusage and limits symbolic; z3 discharges the README "
                "status table on every path. Full 2^32 status space, one terminal event."),
    level_note=SYMEX_NOTE + "wait4/kill/ptrace are stubs returning the symbolic event; forkexec Start is stubbed in the unshare harness.",
    explanation=("handle()/Run()/convertReply()/convertReplyResult() executed symbolically over all wait-status words; oracle = README table written from wait(2) macros."),
    bounds={"status word": "all 2^32 values", "events": "one terminal event for the main process; one event for a secondary process (ptrace)",
            "schedules (unshare.Run)": "all interleavings of the canceller goroutine under preemption bound 2"},
    outside=["sequences of >1 event (covered for ptrace under C03/C15)", "real kernel producing the status"],
    assumptions=["wait4 without WUNTRACED reports only terminated children (unshare/container)"],
    harnesses=[
        dict(pkg=PT, run="^VerifC09_PtraceHandleMain$", replay="model", reach=["exited", "signaled", "stopped"]),
        dict(pkg=PT, run="^VerifC09_PtraceHandleSecondary$", replay="model", reach=["exited", "signaled"]),
        dict(pkg=US, run="^VerifC09_UnshareRun$", replay="model", reach=["exited", "signaled", "over-limit"]),
        dict(pkg=CT, run="^VerifC09_ContainerReply$", replay="model", reach=["exited", "signaled", "not-terminated"]),
        dict(pkg=CT, run="^VerifC09_ContainerReplyErrors$", replay="model", reach=["wait-error", "transport-error", "empty-reply", "error-reply"]),
    ],
)

PROPS["C08"] = dict(
    level="other",
    level_text=("Bounded symbolic execution: PrepareRLimit with all seven 64-bit fields symbolic against a per-resource specification; checkUsage and the unshare "
                "usage comparison with symbolic rusage/limits (unit conversions proved wrap-free for sec<2^33, maxrss<2^53); SIGXCPU/SIGXFSZ delivery stops."),
    level_note=SYMEX_NOTE + "That the kernel enforces a limit it was given is outside (contract).",
    explanation="PrepareRLimit/getRlimit, Tracer.checkUsage, ptraceHandle.handle (signal stops), unshare.Run usage check executed symbolically; oracle in harness.",
    bounds={"RLimits": "all 2^(7*64+1) records", "rusage": "sec < 2^33, usec < 10^6, maxrss < 2^53", "stop signals": "1..64 except SIGTRAP"},
    outside=["kernel enforcement of rlimits", "prlimit64 loop in the child and the output pipe collector (see C04/C07 machinery; not yet claimed here)"],
    assumptions=[],
    harnesses=[
        dict(pkg="./pkg/rlimit", run="^VerifC08_PrepareRLimit$", replay="native", reach=["configured", "unconfigured"]),
        dict(pkg=PT, run="^VerifC08_CheckUsage$", replay="model", reach=["mle", "tle", "within", "both"]),
        dict(pkg=PT, run="^VerifC08_PtraceLimitSignals$", replay="model", reach=["xcpu", "xfsz", "other"]),
        dict(pkg=US, run="^VerifC08_UnshareUsage$", replay="model", reach=["over-limit", "exited", "signaled"]),
    ],
)
