"""Per-property check configuration for ./check (harness lists, bounds, stated assumptions)."""

FH = "./runner/ptrace/filehandler"
LS = "./pkg/seccomp/libseccomp"
PT = "./ptracer"
US = "./runner/unshare"
CT = "./container"
RP = "./runner/ptrace"
FE = "./pkg/forkexec"

SYMEX_NOTE = ("Trusted: the symgo interpreter's SSA semantics (checked by native replay of counterexamples and concrete self-tests), z3's verdicts "
              "(unknown/timeout/error never count as success), and the reference definitions/oracles written in the harness. ")


PROPS = {}
HOOK_COMMITS = []

# Properties not (yet) claimed, with the reason.  Kept current as checks are added.
NOT_APPLICABLE = {("C%02d" % k): "check not built yet in this session (engine and harness under construction; see DESIGN.md §5)" for k in range(1, 21)}

PROPS["C18"] = dict(
    level="other",
    level_text=("Bounded symbolic execution of the real path-set and counter code: every query byte, entry byte and counter value is an SMT "
                "variable, each assertion is discharged by z3 for all values per path, all paths within the stated length bounds are enumerated "
                "(exhaustive within bounds). Right level because the property quantifies over all strings/sets, which only a solver covers."),
    level_note=("Trusted: the symgo interpreter's SSA semantics (validated by native replay of every counterexample and by concrete self-tests), "
                "z3's answers, the reference covers() definition in the harness; realPath is a stub returning an arbitrary string."),
    explanation=("Bounded symbolic execution of the real FileSet/FileSets/Handler/SyscallCounter code (go/ssa of /repo's working tree, "
                 "re-encoded every run) with every path byte, every entry byte, the SystemRoot flags and the counter value as SMT "
                 "bit-vector variables; each path's assertions (admitted => covered by the reference definition, covered => admitted, "
                 "writable=>readable=>statable, refusal = Ban iff soft-ban set covers else Kill, counter step) are discharged by z3 for "
                 "all values on that path; sat answers are replayed natively against the compiled package before being reported."),
    bounds={"query path": "<=5 bytes quick / <=7 thorough, every byte value, restricted to '' or filepath.Clean-stable absolute paths",
            "entries per set": "1 (quick) / 2 (thorough) raw map entries of <=4/5 symbolic bytes + symbolic SystemRoot flag",
            "cascade instances": "fixed entry lengths per instance (see harness names), all bytes symbolic",
            "counter": "one inductive step from an arbitrary 64-bit counter value (> -2^62)",
            "resolver contract": "name of 4 symbolic bytes, resolver answer of 2, one readable/soft-ban entry of 2 + SystemRoot flag"},
    outside=["filepath.EvalSymlinks itself (stubbed: in the cascade harnesses realPath returns an arbitrary clean-stable string or ''; in VerifC18_RealPath the real realPath runs over an arbitrary (result, error) pair of EvalSymlinks)",
             "relative or non-clean query paths (the tracer never presents them)", "longer paths/entries than the stated bounds"],
    assumptions=["realPath stub: arbitrary result", "map iteration order is irrelevant to the code under test"],
    harnesses=[
        dict(pkg=FH, run="^VerifC18_InSet_Quick$", tiers=["quick", "thorough"], replay="native", reach=["admitted", "refused"]),
        dict(pkg=FH, run="^VerifC18_Counter$", tiers=["quick", "thorough"], replay="native", reach=["counted", "uncounted", "refused-then-again"]),
        dict(pkg=FH, run="^VerifC18_Cascade_Q1$", tiers=["quick", "thorough"], replay="native", reach=["allow", "ban", "kill"]),
        dict(pkg=FH, run="^VerifC18_Cascade_Q2$", tiers=["quick", "thorough"], replay="native", reach=["allow", "ban", "kill"]),
        dict(pkg=FH, run="^VerifC18_Cascade_Q3$", tiers=["quick", "thorough"], replay="native", reach=["kill"]),
        dict(pkg=FH, run="^VerifC18_RealPath$", tiers=["quick", "thorough"], replay="model", reach=["unresolvable", "resolved"]),
        dict(pkg=FH, run="^VerifC18_InSet_Thorough$", tiers=["thorough"], replay="native", timeout=3000, reach=["admitted", "refused"]),
        dict(pkg=FH, run="^VerifC18_Cascade_T1$", tiers=["thorough"], replay="native", timeout=1800),
        dict(pkg=FH, run="^VerifC18_Cascade_T2$", tiers=["thorough"], replay="native", timeout=3000),
        dict(pkg=FH, run="^VerifC18_Cascade_T3$", tiers=["thorough"], replay="native", timeout=1800),
        dict(pkg=FH, run="^VerifC18_Cascade_T4$", tiers=["thorough"], replay="native", timeout=1800),
    ],
)

PROPS["C01"] = dict(
    level="translation_validation",
    level_text=("Translation validation of the generated seccomp program: the real Builder.Build -> go-seccomp-bpf Policy.Assemble -> x/net/bpf.Assemble "
                "-> sockFilter -> SockFprog pipeline is executed symbolically (syscall numbers of the policy, the 32-bit Default word, nr, arch, ip and the "
                "six argument words are SMT variables) and the resulting []SockFilter is run through a model of the kernel's cBPF evaluator; z3 shows the "
                "returned action equals the policy's for all 2^32 numbers x all arch tags per policy shape. One symbolic run covers every policy with "
                "|allow|=k,|trace|=m; shapes crossing the 255-instruction short-jump limit are validated with concrete numbers and symbolic inputs."),
    level_note=SYMEX_NOTE + "The 90-line cBPF evaluator/validator in the harness stands for the kernel (seccomp_check_filter instruction subset).",
    technique="symbolic execution of the filter generator + symbolic cBPF evaluation, z3 (translation validation per policy shape)",
    explanation=("Real code Build/ToSeccompAction/ExportBPF/sockFilter/SockFprog + interpreted go-seccomp-bpf and x/net/bpf; symbolic policy numbers, default word, "
                 "and filter input; oracle = policy semantics from the property; cleanTrace checked for disjointness/precedence with symbolic names."),
    bounds={"symbolic-number policy shapes (k allow, m trace)": "quick and thorough: (0,0),(1,0),(0,1),(1,1),(2,1),(2,2),(3,2), numbers pairwise distinct < 2^30",
            "concrete-number shapes": "quick: (40,0); thorough adds (80,0),(130,130),(255,1),(256,0),(300,60) (numbers 3i+1), nr/arch/default/args symbolic",
            "cleanTrace": "<=3 allow and <=3 trace names, each a 2-byte symbolic string"},
    outside=["argument-conditioned rules (the repo never emits them)", "non-amd64 build targets", "policies larger than the listed shapes",
             "that the kernel's BPF interpreter matches the model beyond the instruction subset used"],
    assumptions=["arch.GetInfo stub returns an x86-64 Info whose name table maps placeholder names to symbolic numbers",
                 "kernel cBPF semantics as modelled in evalSeccompBPF/kernelAccepts"],
    programs_fn=lambda rs: len(rs),
    harnesses=[dict(pkg=LS, run="^VerifC01_%s$" % n, tiers=["quick", "thorough"], replay="model",
                    reach=(["foreign-arch", "x32", "default"] + (["allow"] if not n.startswith("k0") else []) + (["trace"] if not n.endswith("m0") else [])))
               for n in ["k0m0", "k1m0", "k0m1", "k1m1", "k2m1", "k2m2", "k3m2", "k40m0"]] +
              [dict(pkg=LS, run="^VerifC01_%s$" % n, tiers=["thorough"], replay="model", timeout=3000) for n in ["k80m0", "k130m130", "k255m1", "k256m0", "k300m60"]] +
              [dict(pkg="./cmd/runprog/config", run="^VerifC01_CleanTrace$", tiers=["quick", "thorough"], replay="native", reach=["traced", "overlap"]),
               dict(pkg="./cmd/runprog/config", run="^VerifC01_GetConf$", tiers=["quick", "thorough"], replay="native", reach=["allow-proc"]),
               dict(pkg=LS, run="^VerifC01_TwoBuilds$", tiers=["quick", "thorough"], replay="model", reach=["second-allow", "second-trace", "second-default"])],
)

PROPS["C09"] = dict(
    level="other",
    level_text=("Bounded symbolic execution of the three classification sites (ptracer handle(), unshare.Run's wait loop incl. canceller goroutine, container "
                "convertReply composed with host convertReplyResult) with the full 32-bit wait-status word, rusage and limits symbolic; z3 discharges the README "
                "status table on every path. Full 2^32 status space, one terminal event."),
    level_note=SYMEX_NOTE + "wait4/kill/ptrace are stubs returning the symbolic event; forkexec Start is stubbed in the unshare harness.",
    explanation=("handle()/Run()/convertReply()/convertReplyResult() executed symbolically over all wait-status words; oracle = README table written from wait(2) macros."),
    bounds={"status word": "all 2^32 values", "events": "one terminal event for the main process; one event for a secondary process (ptrace)",
            "schedules (unshare.Run)": "all interleavings of the canceller goroutine under preemption bound 2"},
    outside=["sequences of >1 event (covered for ptrace under C03/C15)", "real kernel producing the status"],
    assumptions=["wait4 without WUNTRACED reports only terminated children (unshare/container)"],
    harnesses=[
        # signal-delivery stops other than SIGXCPU/SIGXFSZ never end the run (a handled SIGSYS is not a verdict)
        dict(pkg=PT, run="^VerifC08_PtraceLimitSignals$", replay="model", reach=["xcpu", "xfsz", "other"]),
        # the container reports the MAIN process' status also when the program has other processes
        dict(pkg=CT, run="^VerifC12_Ops1$", tiers=["quick", "thorough"], replay="model", preempt=1, timeout=1500, reach=["settled", "program-ran"]),
        dict(pkg=PT, run="^VerifC09_PtraceHandleMain$", replay="model", reach=["exited", "signaled", "stopped"]),
        dict(pkg=PT, run="^VerifC09_PtraceHandleSecondary$", replay="model", reach=["exited", "signaled"]),
        dict(pkg=US, run="^VerifC09_UnshareRun$", replay="model", reach=["exited", "signaled", "over-limit"]),
        dict(pkg=CT, run="^VerifC09_ContainerReply$", replay="model", reach=["exited", "signaled", "not-terminated"]),
        dict(pkg=CT, run="^VerifC09_ContainerReplyErrors$", replay="model", reach=["wait-error", "transport-error", "empty-reply", "error-reply"]),
    ],
)

PROPS["C08"] = dict(
    level="other",
    level_text=("Bounded symbolic execution: PrepareRLimit with all seven 64-bit fields symbolic against a per-resource specification; checkUsage and the unshare "
                "usage comparison with symbolic rusage/limits (unit conversions proved wrap-free for sec<2^33, maxrss<2^53); SIGXCPU/SIGXFSZ delivery stops."),
    level_note=SYMEX_NOTE + "That the kernel enforces a limit it was given is outside (contract).",
    explanation="PrepareRLimit/getRlimit, Tracer.checkUsage, ptraceHandle.handle (signal stops), unshare.Run usage check executed symbolically; oracle in harness.",
    bounds={'collector': 'caps 0..2, totals 0..6 bytes, all chunkings (delay bound 2); one bulk run of 3 MiB through a 64 KiB pipe', 'trace-loop measurements': '<=3 events of the main process with a symbolic usage record and symbolic bounds', 'refused limit': 'one prlimit64 failure (any errno) at either of 2 entries', "RLimits": "all 2^(7*64+1) records", "rusage": "sec < 2^33, usec < 10^6, maxrss < 2^53", "stop signals": "1..64 except SIGTRAP"},
    outside=["kernel enforcement of rlimits", "output volumes between 7 bytes and 3 MiB other than the one bulk run; time-based drain limits"],
    assumptions=[],
    harnesses=[
        dict(pkg="./pkg/rlimit", run="^VerifC08_PrepareRLimit$", replay="native", reach=["configured", "unconfigured"]),
        dict(pkg=PT, run="^VerifC08_CheckUsage$", replay="model", reach=["mle", "tle", "within", "both"]),
        dict(pkg=PT, run="^VerifC08_PtraceLimitSignals$", replay="model", reach=["xcpu", "xfsz", "other"]),
        # the real trace loop with symbolic bounds and a symbolic usage record: verdict together with the measurements
        dict(pkg=PT, run="^VerifC08_TraceMeasurements$", replay="model", reach=["ended-on-main-event", "over-bound", "xcpu-stop", "xfsz-stop"]),
        # a limit the kernel refuses (any errno at the prlimit64 step) stops the launch: the program never runs with other limits than configured
        dict(pkg=FE, run="^VerifC08_RefusedLimit$", replay="model", preempt=0, timeout=1500, reach=["start-error", "indexed-step"]),
        dict(pkg=US, run="^VerifC08_UnshareUsage$", replay="model", reach=["over-limit", "exited", "signaled"]),
        dict(pkg=FE, run="^VerifC08_LimitsInForce$", replay="model", preempt=0, reach=["execed", "configured", "inherited"]),
        dict(pkg="./pkg/pipe", run="^VerifC08_OutputCollector$", replay="model", preempt=2, timeout=1500, reach=["done-signalled", "over-cap"]),
        dict(pkg="./pkg/pipe", run="^VerifC08_OutputCollectorBulk$", replay="model", preempt=0, timeout=900, reach=["done-signalled", "over-cap"]),
    ],
)

PROPS["C02"] = dict(
    level="other",
    level_text=("Bounded symbolic execution of the real tracerHandler.Handle: the syscall number ranges over the whole amd64 table (solver-enumerated), the dirfd "
                "register and the open flag words are full 64-bit SMT variables; z3 shows the (directory register, pathname register, access class) used equal the "
                "syscall ABI's, that the base directory is selected from the kernel's (int)reg view of dirfd, and that every create/truncate/write-capable open is "
                "checked as a write (unreadable open_how => write)."),
    level_note=SYMEX_NOTE + "Register accessors, GetString, getProcCwd/getProcFd, os.Lstat and PtracePeekData are stubs; the ABI table in the harness is written from the man pages. "
               "Resolve: absPath/absPathAt run against a symbolic forest and are compared with a reference implementation of the kernel's path walk. GetString runs against a tracee-memory model.",
    explanation="Handle/check*/absPath*/isOpenReadOnly/readOpenHowFlags executed symbolically; oracles: ABI table, kernel int-dirfd rule, open(2) flag semantics.",
    bounds={'final component': 'through Handle: 12 calls (follow / no-follow, flags 0) x 2 names x cwd / (quick); x 5 names x 3 cwds (thorough) on the symbolic forest', "syscall number": "all values: the whole table plus 'unknown'", "dirfd register": "all 2^64 values x 15 *at syscalls", "open flags": "all 2^64 words for open/openat/openat2",
            "file system": "ArgPositions/Dirfd/OpenFlags: no symbolic links; Resolve: symbolic forest of 6 nodes (/a,/a/b,/a/b/c,/d,/d/e,/f), each dir/file/link/absent, 10 link targets, 4 (quick) / 19 (thorough) query strings, cwd- / AT_FDCWD- / descriptor-relative"},
    outside=["flag-dependent final-component rule (AT_SYMLINK_NOFOLLOW / AT_SYMLINK_FOLLOW / O_NOFOLLOW: the harness drives those calls with flags 0)", "forests beyond the 6-node skeleton", "/proc alias grammar beyond what Handle exercises here", "TOCTOU between check and use"],
    assumptions=["tracee single-threaded (tid = tgid)"],
    harnesses=[
        dict(pkg=RP, run="^VerifC02_ArgPositions$", replay="model", reach=["path-syscall", "other-syscall", "unknown-number"], timeout=900),
        dict(pkg=RP, run="^VerifC02_Dirfd$", replay="model", reach=["at_fdcwd", "descriptor"]),
        dict(pkg=RP, run="^VerifC02_OpenFlags$", replay="model", reach=["write-capable", "read-only", "open_how-unreadable"]),
        # the pathname shown to the policy is the tracee's whole NUL-terminated string (page-boundary straddling, unmapped tails): tracee-memory model of C15
        dict(pkg=PT, run="^VerifC15_GetString_Quick$", replay="model", reach=["terminated", "unterminated"]),
        dict(pkg=RP, run="^VerifC02_Resolve_Q$", tiers=["quick", "thorough"], replay="model", preempt=0, timeout=1500, reach=["kernel-resolves", "kernel-fails", "dotdot-after-symlink"]),
        # final-component rule per call (follow / no-follow) through Handle on the symbolic forest
        dict(pkg=RP, run="^VerifC02_FinalComponent_Q$", tiers=["quick"], replay="model", preempt=0, timeout=1500, reach=["kernel-resolves", "kernel-fails", "final-link-not-followed"]),
        dict(pkg=RP, run="^VerifC02_FinalComponent$", tiers=["thorough"], replay="model", preempt=0, timeout=6000, max_paths=5000000),
    ] + [dict(pkg=RP, run="^VerifC02_Resolve_T%d$" % i, tiers=["thorough"], replay="model", preempt=0, timeout=6000, max_paths=5000000) for i in range(4)],
)

PROPS["C03"] = dict(
    level="other",
    level_text=("Bounded symbolic execution of the real trace loop (Tracer.trace, ptraceHandle.handle, handleTrap, setPtraceOption, skipSyscall, killAll, collectZombie) "
                "against a K-PTRACE contract model: wait-status words, handler verdict (all 2^64 values), registers and the reporting process are solver/exploration "
                "variables; a monitor inside the model asserts options-before-first-resume, ban => orig_rax=-1 before resume, kill => never resumed and Disallowed Syscall, "
                "allow => unmodified registers, same-signal re-injection, group kill and reaping before return."),
    level_note=SYMEX_NOTE + "K-PTRACE (stops, wait4, ESRCH on non-stopped tracees, TRACEFORK auto-attach) is a contract model of ptrace(2); that Linux honours it is outside.",
    explanation="trace()/handle()/handleTrap() run on symbolic event streams from the K-PTRACE model with a monitor; see harness zz_verif_c03.go.",
    bounds={'handler verdicts': 'allow/ban/kill per named path x {open, unlink, rename, renameat2, linkat, unlisted call} x unsafe mode x any configured errno 1..133', "events": "<=4 events quick (2 processes), <=6 events thorough (3 processes)", "verdict": "any 64-bit TraceAction", "schedules": "canceller goroutine interleavings, preemption bound 2"},
    outside=["registers other than orig_rax / rax", "kernel ptrace semantics themselves"],
    assumptions=["K-PTRACE contract"],
    harnesses=[
        dict(pkg=PT, run="^VerifC03_Trace_Quick$", tiers=["quick", "thorough"], replay="model", reach=["ban-enforced", "allow-resumed", "kill-verdict"], timeout=900),
        dict(pkg=PT, run="^VerifC03_MultiProc$", tiers=["quick", "thorough"], replay="model", reach=["ban-enforced", "allow-resumed", "kill-verdict"], timeout=900),
        # Handle: strictest verdict over the paths a call names, ban return value = minus the configured errno, unsafe mode
        dict(pkg=RP, run="^VerifC03_HandlerVerdicts$", tiers=["quick", "thorough"], replay="model", preempt=0, reach=["handled", "ban"]),
        # the filter's kill action ends the whole program, not one thread (compiled filter vs the cBPF model of C01)
        dict(pkg=LS, run="^VerifC01_k1m1$", tiers=["quick", "thorough"], replay="model", reach=["default", "allow", "trace"]),
        # launcher side (C03-g): PTRACE_TRACEME and the self-stop precede the filter load for every option set with ptrace
        dict(pkg=FE, run="^VerifC04_OptionsBundled_p1$", tiers=["quick", "thorough"], replay="model", preempt=0, timeout=1500, reach=["stops-first"]),
        dict(pkg=FE, run="^VerifC04_OptionsBundled_p3$", tiers=["quick", "thorough"], replay="model", preempt=0, timeout=1500, reach=["stops-first"]),
        dict(pkg=PT, run="^VerifC03_Trace_Quick5$", tiers=["thorough"], replay="model", timeout=3000, max_paths=3000000),
        dict(pkg=PT, run="^VerifC03_Trace_Thorough$", tiers=["thorough"], replay="model", timeout=7200, max_paths=30000000),
    ],
)

PROPS["C15"] = dict(
    level="other",
    level_text=("Bounded symbolic execution of GetString/vmReadStr/vmRead/clen against a tracee-memory model (symbolic NUL offset in windows around 0, the page boundary and "
                "PATH_MAX; unmapped pages; process_vm_readv partial reads/EFAULT/ENOSYS, PEEK fallback) with every Go panic site a solver obligation; the trace loop under "
                "a tracee that vanishes (ESRCH) at any ptrace request; the handler on unknown syscall numbers."),
    level_note=SYMEX_NOTE + "process_vm_readv/PTRACE_PEEKDATA contracts are modelled (partial transfer up to the first unmapped byte).",
    explanation="GetString & friends and trace() executed symbolically; panics, Runner Error on the program's account and lack of progress are the violations.",
    bounds={"NUL offset": "symbolic in [-1] U [0,8] U [4086,4104]", "first unmapped offset": "{none,0,1,6,4096,8192} page-aligned", "start alignment": "{0,1,4090,4095}",
            "events": "<=4 with one vanished-tracee injection at any of the first 6 ptrace requests"},
    outside=["memory changing between read and use", "strings longer than 2*PATH_MAX"],
    assumptions=["K-PTRACE contract", "process_vm_readv contract"],
    harnesses=[
        dict(pkg=PT, run="^VerifC15_GetString_Quick$", replay="model", reach=["terminated", "unterminated"]),
        dict(pkg=PT, run="^VerifC15_TraceESRCH$", replay="model", reach=["vanished"], timeout=900),
        dict(pkg=RP, run="^VerifC02_ArgPositions$", replay="model", reach=["unknown-number"], timeout=900),
    ],
)

KERN_NOTE = ("Kernel contract model (harness/zzverif/kern/kernel.go, interpreted with the code): K-FD descriptor tables with dup3/fcntl/close/cloexec-on-exec, K-CRED "
             "capabilities/securebits/no_new_privs/setuid fix-up/seccomp precondition/exec recomputation, K-NS clone flags, K-PROC clone/vfork/exit/kill/wait4, K-SOCK stream "
             "socketpair, K-FAULT arbitrary errno at any call. forkAndExecInChild runs as a second model process (vfork: shared heap; fork: deep-copied heap). ")

PROPS["C04"] = dict(
    level="other",
    level_text=("Bounded symbolic execution of the real launcher (Runner.Start, forkAndExecInChild, syncWithChild, writeIDMaps) against the kernel contract model: every option "
                "is a solver variable (clone flags 64-bit, uid/gid/groups 32-bit, booleans) and the executor forks only where the code branches; at the successful exec the "
                "model process state is compared with a specification function of the options (caps empty + NOROOT, no_new_privs, exactly the given filter with TSYNC after the "
                "last privileged step, ids, session, cwd/host/domain, namespaces, clone-into-cgroup, fexecve, trace-me/stop/filter order, sync gate)."),
    level_note=SYMEX_NOTE + KERN_NOTE + "That Linux implements these calls as documented is outside.",
    explanation="Start/forkAndExecInChild/syncWithChild executed symbolically as two model processes; oracle = 15-line specification of the security state per option set.",
    bounds={'runner-level construction': 'filter of length 0 (nil or empty), 1, 2; sync callback present/absent; uid 0/1', 'refused id maps': 'one failure (any errno) at the open or write of uid_map/gid_map/setgroups', "options": "full cross product of {credential, drop-caps, no-new-privs, seccomp, ptrace, stop-before-seccomp, sync callback, late cgroup unshare, NoSetGroups} x all clone-flag words x "
                       "orthogonal options {groups, gid map, cgroup fd, exec fd, workdir, host/domain name, pivot root, ctty} all-off/all-on (quick and thorough; the run with independent orthogonal options did not finish in 40 min and is not registered)",
            "schedules": "parent/child interleaving fixed to run-until-block (preemption bound 0)", "faults": "none (see C07)"},
    outside=["option sets the kernel rejects for an unprivileged host (host is root here)", "mount list / rlimit list contents (C05/C08)", "real kernel behaviour"],
    assumptions=["host process is root with all capabilities", "K-* contract clauses"],
    harnesses=[dict(pkg=FE, run="^VerifC04_OptionsBundled_p%d$" % i, replay="model", preempt=0, timeout=1500,
                    reach=["execed", "drop-caps", "nnp", "filter", "setgroups", "into-cgroup", "fexecve"] + (["stops-first"] if i else []) + ["sync"]) for i in range(4)] +
              [
               # the kernel refusing an id-map file stops the launch: no program in a user namespace without its maps
               dict(pkg=FE, run="^VerifC04_IdMapRefused$", replay="model", preempt=0, timeout=1500, reach=["start-error"]),
               # runner level: how unshare.Runner.Run builds the launcher configuration (filter iff given, nnp and namespaces always)
               dict(pkg=US, run="^VerifC04_RunnerBuildsLauncher$", replay="model", preempt=0, reach=["returned", "no-filter", "filter"]),
               dict(pkg=RP, run="^VerifC04_PtraceRunnerBuildsLauncher$", replay="model", preempt=0, reach=["returned", "no-filter", "filter"])],
)

PROPS["C06"] = dict(
    level="other",
    level_text=("Bounded symbolic execution of prepareFds and the two descriptor-shuffling passes inside the real launcher against the K-FD model: the listed descriptor numbers, "
                "the exec and cgroup descriptors and the socketpair numbers are solver variables (any order, repeats, overlap with 0..n-1 and with each other, the close marker); "
                "at exec descriptor i must be the i-th listed open file with close-on-exec clear and nothing else may be open; Start must leave *Runner and the launcher's own table unchanged "
                "(checked with and without vfork memory sharing)."),
    level_note=SYMEX_NOTE + KERN_NOTE + "Assumption: descriptors of the launching process other than its stdio are close-on-exec (Go's convention under ForkLock).",
    explanation="prepareFds + pass 1/2 + Start executed symbolically on symbolic descriptor numbers; oracle on the model process' table at exec.",
    bounds={"list length": "<=2 (quick and thorough, all four exec/sync partitions) / <=3 (thorough, partitions without an exec descriptor; with one the run did not finish in 40 min and is not registered)", "descriptor numbers": "< 6 (quick) / < 8 (thorough) or the close marker; socketpair numbers < 64",
            "exec/cgroup fd": "present/absent, any number in range", "vfork": "both clone variants"},
    outside=["descriptors opened concurrently by other threads (C17)", "lists longer than the bound"],
    assumptions=["non-listed descriptors >= 3 of the launcher are close-on-exec"],
    harnesses=[dict(pkg=FE, run="^VerifC06_Files2_p%d$" % i, tiers=["quick", "thorough"], replay="model", preempt=0, timeout=1500,
                    reach=["execed", "marker"] + (["execfile"] if i & 1 else [])) for i in range(4)] +
              [dict(pkg=FE, run="^VerifC06_Files3_p%d$" % i, tiers=["thorough"], replay="model", preempt=0, timeout=3600, max_paths=30000000) for i in (0, 2)],
)

PROPS["C07"] = dict(
    level="fault_enumeration",
    level_text=("Solver-driven fault injection into the real launcher: at every modelled call of parent and child one failure with an arbitrary errno (SMT variable) may be "
                "injected, for each configuration of {ptrace, seccomp, user namespace, late cgroup unshare, sync callback}; z3 decides which call sites are reachable and the "
                "assertions (callback only while the child waits before exec; failed Start => program never ran, child killed and reaped, sync channel closed, ChildError names "
                "the failing step and carries its errno; failing callback => error) are discharged for all errno values."),
    level_note=SYMEX_NOTE + KERN_NOTE,
    explanation="Start/forkAndExecInChild/syncWithChild with K-FAULT enabled (one fault per run, any errno); spec of error locations in the harness (expectedLocs).",
    bounds={"faults": "one injected failure per run at any of ~45 call sites, errno symbolic in 1..133 (EINTR/ETXTBSY/EEXIST/ESRCH excluded)",
            "configurations": "ptrace x seccomp x {no namespaces, user+mount+pid+uts namespaces} x late cgroup unshare x sync callback (incl. failing callback); credential, groups, 1 mount, 2 rlimits, pivot root, workdir, host/domain name switched on",
            "schedules": "run-until-block (preemption bound 0)"},
    outside=["EINTR storms, partial writes on the sync socket", "relay of the sync gate beyond one operation per history"],
    assumptions=["K-* contract clauses"],
    harnesses=[dict(pkg=FE, run="^VerifC07_Faults_p%d$" % i, replay="model", preempt=0, timeout=1500, reach=["start-error", "start-ok"] + (["callback-error"] if i & 2 else [])) for i in range(4)] + [
        # container-side relay of the sync gate (refusal before / after exec, also of a program that never ends by itself)
        dict(pkg=CT, run="^VerifC10_Ops1$", tiers=["quick", "thorough"], replay="model", preempt=1, timeout=1500, reach=["final-ping"]),
        # the gate is never opened by end-of-file: the launcher dying inside the callback is a refusal
        dict(pkg=FE, run="^VerifC16_LauncherDiesDuringSync$", tiers=["quick", "thorough"], replay="model", preempt=1, timeout=900, reach=["launcher-killed-in-sync-window"]),
    ],
)

CT_NOTE = ("Both real endpoints (host `container` with sendLoop/recvLoop, init `containerServer` with serve/sendLoop/recvLoop/waitLoop and every handler) are built directly and run as "
           "interpreter threads joined by a model SEQPACKET link with descriptor passing (harness/container/zz_verif_model.go); gob framing is replaced by value transfer; the launcher below "
           "the real forkexec.Start is its C07 contract (fails early / syncs then runs / exec fails after the sync); the program is an abstract process (ends with any status at any instant or runs until killed). "
           "Interleavings of the 7-9 threads are enumerated by the engine under a delay bound (deviations from the deterministic run-until-block scheduler); data (wait status, flags, outcomes) is symbolic and decided by z3. ")

PROPS["C10"] = dict(
    level="model_checking",
    level_text=("Bounded model checking of the two real protocol endpoints: every history of n operations over {Ping, Open, Delete, Symlink, Reset, Execve(failure mode x sync mode)}, "
                "every interleaving within the delay bound, optional cancellation and one transport loss at any send/receive; asserted: each call returns, the reply it consumes was produced for "
                "its own command (ghost sequence numbers), no ok/kill is ever read as a top-level command, request/program-caused failures leave the environment usable (final Ping), "
                "after transport loss every call fails and none hangs (deadlock = violation)."),
    level_note=SYMEX_NOTE + CT_NOTE,
    technique="bounded model checking of the real endpoints (symbolic data via z3, delay-bounded schedule enumeration)",
    explanation="container.{Ping,Open,Delete,Symlink,Reset,Execve,waitForDone,...} and containerServer.{serve,handle*,...} executed as threads over a model link.",
    bounds={'container init death': 'once, at any transport event around a Ping / Open / Execve', "history length": "1 operation + final Ping at delay bound 1 (quick and thorough); 2 operations at delay bound 0 (thorough)", "delay bound": "see history length", "transport loss": "at most one, at any send/receive",
            "Execve": "argv empty/non-empty, lookup fails, clone fails, child step fails, sync callback nil/ok/refusing, sync before/after exec, exec fails after sync, program ends with any status"},
    outside=["gob's real encoding (C19 models the stream abstractly)", "real timing of the ping deadline (the deadline may expire whenever it is armed while a program runs)"],
    assumptions=["C07 contract of forkexec.Start", "K-SOCK SEQPACKET contract"],
    harnesses=[
        dict(pkg=CT, run="^VerifC10_Ops1$", tiers=["quick", "thorough"], replay="model", preempt=1, timeout=1500, reach=["final-ping", "exec-fails-after-sync", "start-fails-early", "sync-refused", "lookup-fails", "program-runs"]),
        dict(pkg=CT, run="^VerifC10_Ops1Cancel$", tiers=["quick", "thorough"], replay="model", preempt=1, timeout=1500, reach=["cancelled-run", "program-verdict"]),
        dict(pkg=CT, run="^VerifC10_StaleCommand$", tiers=["quick", "thorough"], replay="model", preempt=0, timeout=1500, reach=["both-runs", "no-arguments"]),
        dict(pkg=CT, run="^VerifC10_Ops1Break$", tiers=["quick", "thorough"], replay="model", preempt=1, timeout=3000, reach=["transport-lost", "ping-after-loss"]),
        # the container init is killed at an arbitrary transport event around a call: end-of-file on the host side
        dict(pkg=CT, run="^VerifC10_InitDies$", replay="model", preempt=1, timeout=1500, reach=["init-killed", "call-returned", "call-failed"]),
        # another operation on the same environment while a program runs (its command must never be taken for the run's kill message)
        dict(pkg=CT, run="^VerifC17_OpDuringExecve$", replay="model", preempt=1, timeout=1500, reach=["both-returned", "program-ran"]),
        dict(pkg=CT, run="^VerifC10_Ops2$", tiers=["thorough"], replay="model", preempt=0, timeout=3600, max_paths=50000000),
    ],
)

PROPS["C11"] = dict(
    level="model_checking",
    level_text=("Cancellation instants as schedule positions: the real unshare.Run, ptracer trace loop and container Execve/waitForDone + container-side handleExecveStarted run against "
                "process/ptrace/link models with the context cancelled before the run or at any scheduling point within the delay bound; the program ends by itself (any status) or runs until killed; "
                "asserted: the call returns (no deadlock), the program is dead and reaped, the verdict is the genuine one or Time Limit Exceeded, never Runner Error / Disallowed Syscall. "
                "Launch race: the real forkexec launcher (child as a second model process) under the real Tracer.Trace with the context cancelled before the child owns its process group. "
                "Destroy: the real container.Destroy before, or at any instant of, an in-flight Ping/Open/Execve on the real host endpoint: both return, a call begun after the close fails, "
                "a run of a never-ending program comes back as an error, init is killed then reaped, nothing inside survives, a later call fails."),
    level_note=SYMEX_NOTE + CT_NOTE + "Wall-clock promptness is read as 'without waiting for an event that may never happen'.",
    technique="bounded model checking of the real cancellation paths (delay-bounded schedule enumeration + symbolic status words)",
    explanation="unshare.Run, Tracer.trace, container.Execve with modelled wait4/kill/ptrace and a canceller thread.",
    bounds={'Destroy': 'before the call / free-running thread / injected at any transport event, around Ping, Open, Execve (sync callback, never-ending program)', 'launch race': 'real launcher + real tracer, context cancelled before the run or by a canceller thread, delay bound 2', "delay bound": "2 (unshare, ptrace), 1 (container)", "program": "ends by itself with any wait status or runs until killed"},
    outside=["Destroy while Build is still configuring the container", "wall-clock bounds (promptness is 'never waits for an event that may not happen')"],
    assumptions=["K-PTRACE, K-PROC contracts", "K-PROC: death of the pid-namespace init kills every process inside", "Go net: I/O on a connection closed by this process fails with net.ErrClosed and wakes blocked readers"],
    harnesses=[
        dict(pkg=US, run="^VerifC11_UnshareCancel$", replay="model", preempt=2, reach=["returned", "killed", "ended-by-itself"]),
        dict(pkg=PT, run="^VerifC11_PtraceCancel$", replay="model", preempt=2, reach=["returned"]),
        # real launcher (forkexec child as a second model process) under the real Tracer.Trace: cancellation before/while the child gets its own process group
        dict(pkg=PT, run="^VerifC11_PtraceCancelDuringLaunch$", replay="model", preempt=2, timeout=900, reach=["returned"]),
        # the canceller's kill landing between a stop notification and the tracer's next ptrace request (ESRCH at any request)
        dict(pkg=PT, run="^VerifC15_TraceESRCH$", replay="model", reach=["vanished"], timeout=900),
        dict(pkg=CT, run="^VerifC10_Ops1Cancel$", replay="model", preempt=1, timeout=1500, reach=["cancelled-run", "program-verdict"]),
        # Destroy before / concurrently with (free thread; injected at any transport event of either side) an in-flight Ping/Open/Execve
        dict(pkg=CT, run="^VerifC11_DestroyBeforeCall$", replay="model", preempt=1, reach=["destroy-before-call", "call-failed", "destroyed"]),
        dict(pkg=CT, run="^VerifC11_DestroyThread$", replay="model", preempt=1, timeout=900, reach=["call-failed", "call-succeeded", "endless-program-call-returned", "destroyed"]),
        dict(pkg=CT, run="^VerifC11_DestroyInjected$", replay="model", preempt=1, timeout=1500, reach=["cancel-injected", "call-failed", "call-succeeded", "destroyed"]),
    ],
)

PROPS["C12"] = dict(
    level="model_checking",
    level_text=("Residue check on the real endpoints under the link/file/process models: after every operation of a history (Open batch, Execve in every failure/sync/cancel mode, Ping) the "
                "descriptor tables of host and container init equal their baseline, nothing was closed twice, the program is dead and reaped, kill(-1) was issued, and the number of live "
                "threads of both processes equals the baseline. ptrace side: the trace-loop monitor of C03 asserts group kill and reaping of every tracee before return."),
    level_note=SYMEX_NOTE + CT_NOTE,
    technique="bounded model checking with descriptor/process/thread accounting",
    explanation="c12 harness over container host/init endpoints; C03 harness for the tracer.",
    bounds={'Build': 'each later step (temporary root, work directory, configuration, transport) failing after the container was started', 'program shape': 'one or two processes', "history": "1 operation at delay bound 1 (quick and thorough), 2 operations at delay bound 0 (thorough)", "delay bound": "see history"},
    outside=["real process trees that daemonise (kernel clause: SIGKILL to -1 / pid-ns teardown)", "startContainer itself (exec.Cmd, socket pair) and the descriptors it creates"],
    assumptions=["K-PROC: kill(-1,SIGKILL) in a pid namespace kills every process but init"],
    harnesses=[
        dict(pkg=CT, run="^VerifC12_Ops1$", tiers=["quick", "thorough"], replay="model", preempt=1, timeout=1500, reach=["settled", "program-ran"]),
        dict(pkg=CT, run="^VerifC12_Ops1Cancel$", tiers=["quick", "thorough"], replay="model", preempt=1, timeout=1500, reach=["settled", "program-ran"]),
        dict(pkg=CT, run="^VerifC12_Ops2$", tiers=["thorough"], replay="model", preempt=0, timeout=3600, max_paths=50000000),
        dict(pkg=FE, run="^VerifC07_Faults_p0$", tiers=["quick", "thorough"], replay="model", preempt=0, timeout=1500, reach=["start-error"]),
        dict(pkg=FE, run="^VerifC07_Faults_p2$", tiers=["quick", "thorough"], replay="model", preempt=0, timeout=1500, reach=["start-error"]),
        dict(pkg=US, run="^VerifC11_UnshareCancel$", tiers=["quick", "thorough"], replay="model", preempt=2, reach=["context-outlives-run"]),
        # the real Builder.Build with every later step failing: a failed Build destroys what it started
        dict(pkg=CT, run="^VerifC12_BuildFailure$", tiers=["quick", "thorough"], replay="model", preempt=0, reach=["build-failed", "failed-after-start", "built"]),
        dict(pkg="./pkg/unixsocket", run="^VerifC19_Constructors$", tiers=["quick", "thorough"], replay="model", preempt=0, reach=["failed", "built"]),
        dict(pkg=PT, run="^VerifC03_MultiProc$", tiers=["quick", "thorough"], replay="model", timeout=900),
    ],
)

PROPS["C14"] = dict(
    level="other",
    level_text=("Bounded symbolic execution of handleOpen/checkOpenTargetFile/sendReplyFiles and host Open over batches of 0..3 items where per item the MkdirAll flag, the kind of object at the "
                "path (absent, regular, dir, symlink, fifo, socket, device, lstat error) and the mkdir/open outcomes vary; asserted: index alignment, identity of the returned descriptor's open file "
                "with the requested path (through the descriptor-passing link), close-on-exec, OpenFile never reached for a non-regular object, no leak/double close on either side, protocol in step."),
    level_note=SYMEX_NOTE + CT_NOTE + "Object kinds and outcomes are exploration choices/solver booleans of the file-system stubs.",
    explanation="handleOpen + host Open executed over the link model; stubs for os.Lstat/OpenFile/MkdirAll.",
    bounds={'two batches': '2 items each, write-flags / permissions / MkdirAll symbolic per item (incl. zero values)', "batch": "0..3 items", "object kinds": "8", "host defensive path": "arbitrary reply: 0..3 batch errors, 0..3 descriptors, optional error reply (no panic/double close)"},
    outside=["object swapped between lstat and open", "intermediate-component symlinks", "descriptors attached to replies the real container never produces"],
    assumptions=[],
    harnesses=[
        dict(pkg=CT, run="^VerifC14_OpenBatch$", replay="model", preempt=0, timeout=900, reach=["empty-batch", "item-ok", "item-failed"]),
        dict(pkg=CT, run="^VerifC14_HostDefensive$", replay="model", preempt=0, reach=["accepted", "rejected"]),
        dict(pkg=CT, run="^VerifC14_DeleteSymlinkHistory$", replay="model", preempt=1, timeout=900, reach=["final-ping"]),
        dict(pkg=CT, run="^VerifC14_PlantedBetweenOpens$", replay="model", preempt=1, timeout=900, reach=["created", "reopened"]),
        # two batches with differing flags / permissions / MkdirAll (zero values are omitted on the wire; the link model decodes INTO the destination as gob does)
        dict(pkg=CT, run="^VerifC14_TwoBatches$", replay="model", preempt=0, timeout=900, reach=["both-batches"]),
        dict(pkg=CT, run="^VerifC14_SymlinkBatch$", replay="model", preempt=0, timeout=900, reach=["batch-done"]),
    ],
)

PROPS["C16"] = dict(
    level="model_checking",
    level_text=("Crash points as schedule/solver variables: the controlling process is killed at any of its socket operations, inside the sync callback, or while idle (all its threads vanish, "
                "its socket end closes); with the parent-death signal NOT modelled the real container endpoint must reach its exit from every crash instant without further input. "
                "Separately, for every CloneFlags word (64-bit symbolic) the init process is started with Pdeathsig=SIGKILL and CLONE_NEWPID (default or requested); every tracee gets "
                "PTRACE_O_EXITKILL before its first resume (C03 monitor)."),
    level_note=SYMEX_NOTE + CT_NOTE + "The three kernel mechanisms (pdeathsig, pid-namespace teardown, EXITKILL) are clauses.",
    technique="bounded model checking with crash injection + symbolic execution of startContainer",
    explanation="containerServer endpoint under controller death at every host-visible step; startContainer with symbolic clone flags.",
    bounds={'launcher death': 'inside the sync callback; plain, user-namespace and ptrace+seccomp launches, delay bound 1', "operation in flight": "Ping, Open, Execve (all start modes, sync before/after exec), idle", "delay bound": "1", "crash": "one per run"},
    outside=["the kernel mechanisms themselves"],
    assumptions=["init is pid 1 of its pid namespace: its exit kills everything inside"],
    harnesses=[
        dict(pkg=CT, run="^VerifC16_ControllerDies$", replay="model", preempt=1, timeout=1500, reach=["controller-killed", "killed-while-idle", "program-outlives-serve"]),
        # the launcher is SIGKILLed inside the sync window: a 0-byte read is a refusal, the child neither execs nor lingers
        dict(pkg=FE, run="^VerifC16_LauncherDiesDuringSync$", replay="model", preempt=1, timeout=900, reach=["launcher-killed-in-sync-window"]),
        dict(pkg=CT, run="^VerifC16_InitAttrs$", replay="model", preempt=0, reach=["wants-pidns", "default-flags"]),
        dict(pkg=PT, run="^VerifC03_MultiProc$", replay="model", timeout=900),
    ],
)

PROPS["C17"] = dict(
    level="model_checking",
    level_text=("Reduced claim (2-3 concurrent callers): two (delay bound 2) or three (delay bound 1) goroutines call one environment concurrently, every interleaving within the bound; each must receive the answer to its own command "
                "(distinguishable outcomes), the protocol stays in step. The tracer's wait4/kill arguments are asserted to name only the run's own pid / process group (never -1) in the C03 harnesses."),
    level_note=SYMEX_NOTE + CT_NOTE,
    technique="bounded model checking (delay-bounded interleavings) of concurrent calls on the real endpoints",
    explanation="two concurrent host calls over the link model; K-PTRACE monitor on wait4/kill targets.",
    bounds={'other pairs': 'Ping or Open/Delete/Symlink/Reset during a run (delay bound 1); fork vs a descriptor creator under ForkLock.RLock (delay bound 2)', "threads": "2 callers at delay bound 2, 3 callers at delay bound 1 (quick) / 2 (thorough); not 16", "delay bound": "see threads"},
    outside=["4+-way interactions, OS-thread scheduling, plain-memory data races", "descriptor creators that bypass ForkLock"],
    assumptions=[],
    harnesses=[
        dict(pkg=CT, run="^VerifC17_TwoCallers$", replay="model", preempt=2, timeout=1500, reach=["both-returned"]),
        dict(pkg=CT, run="^VerifC17_ThreeCallers$", tiers=["quick"], replay="model", preempt=1, timeout=1500, reach=["all-returned"]),
        dict(pkg=CT, run="^VerifC17_ThreeCallers$", tiers=["thorough"], replay="model", preempt=2, timeout=3600, max_paths=20000000),
        # Ping racing a running program in the same environment (Ping's socket deadline may expire while it is armed and the program still runs)
        dict(pkg=CT, run="^VerifC17_PingDuringExecve$", replay="model", preempt=1, timeout=1500, reach=["both-returned", "program-ran"]),
        dict(pkg=CT, run="^VerifC17_OpDuringExecve$", replay="model", preempt=1, timeout=1500, reach=["both-returned", "program-ran"]),
        dict(pkg=PT, run="^VerifC03_Trace_Quick$", replay="model", timeout=900),
        # the launcher's fork excludes goroutines that create descriptors under ForkLock.RLock (no inherited foreign descriptor)
        dict(pkg=FE, run="^VerifC17_ForkVsDescriptorCreator$", replay="model", preempt=2, timeout=900, reach=["execed", "creator-ran"]),
    ],
)

PROPS["C13"] = dict(
    level="other",
    level_text=("Bounded symbolic execution of handleReset/removeContents over a symbolic mount table (<=3 entries, symbolic fs type) with <=2 leftover entries per target and symbolic faults "
                "on open/readdir/removeall: a success reply implies that no tmpfs target has anything left, any failure yields an error reply, no directory handle leaks. memfd.DupToMemfd "
                "with symbolic content and a fault at each step: success => MFD_CLOEXEC|MFD_ALLOW_SEALING, content equals the reader's bytes, all four seals applied after the copy, offset 0; "
                "failure => descriptor closed exactly once, no file returned."),
    level_note=SYMEX_NOTE + "RemoveAll contract: removes the named subtree whatever its kind or mode, or fails. Kernel seal semantics are a clause. fexecve via execveat(AT_EMPTY_PATH) is checked in C04/C06.",
    explanation="handleReset + removeContents + DupToMemfd/New with file-system and memfd stubs.",
    bounds={'memfd reader': 'plain io.Reader or *os.File positioned at 0..3 of 3 bytes', 'leftover kinds': 'regular entry or dangling symbolic link', "mount table": "<=3 entries, fs type in {tmpfs, bind, proc}", "leftovers": "<=2 per target", "memfd content": "3 symbolic bytes read in 2-byte chunks", "faults": "one per step"},
    outside=["writable bind mounts are by design not reset", "kernel seal semantics", "real directory trees (RemoveAll contract)"],
    assumptions=["os.RemoveAll contract"],
    harnesses=[
        dict(pkg=CT, run="^VerifC13_Reset$", replay="model", preempt=0, reach=["success", "error-reply"]),
        dict(pkg="./pkg/memfd", run="^VerifC13_Memfd$", replay="model", preempt=0, reach=["success", "failure"]),
    ],
)

PROPS["C19"] = dict(
    level="other",
    level_text=("Bounded symbolic execution of unixsocket SendMsg/RecvMsg/parseMsg against a SEQPACKET+ancillary-data contract model (payload length, receive buffer length, number of rights, "
                "credentials, control-buffer size vary; the kernel installs the rights that fit even when it raises MSG_TRUNC/MSG_CTRUNC): a delivered message has the sender's length, the same "
                "open files in order and the credentials; truncation is never delivered as success; on every error return each installed descriptor was closed exactly once; arbitrary control "
                "messages from a hostile peer; the framed layer rejects an encoded length (64-bit symbolic, classes around the 32 KiB cap) above the cap before anything is sent."),
    level_note=SYMEX_NOTE + "The cmsg codecs of package syscall (unsafe reinterpretation) are replaced by a codec with the real CmsgSpace sizes; gob is replaced by a length stub. Linux merges all SCM_RIGHTS of one sendmsg into one message (assumed).",
    explanation="(*Socket).SendMsg/RecvMsg/parseMsg/closeRights and container.(*socket).SendMsg executed symbolically over the socket model.",
    bounds={'receiver': 'SO_PASSCRED on/off (kernel-supplied credentials, credentials delivered before rights)', 'constructors': 'socketpair, wrap, duplicate: each step failing', 'framed sequences': '3 messages, each send failing in the transport / oversized / fine', "payload / buffer": "0..5 bytes each (relative order is what matters)", "rights": "0..3", "control buffer": "4096 or 24/32/40 bytes", "hostile peer": "<=2 control messages of kind rights/cred/foreign",
            "framed length": "any 0..40000 (classes 0, small, cap-1, cap, cap+1, large)"},
    outside=["gob's real encoding (the stream is an abstract model: type description once, values after it)", "net.FileConn / os.NewFile internals (stubs with the documented ownership rules)"],
    assumptions=["K-SOCK SEQPACKET contract incl. MSG_CMSG_CLOEXEC"],
    harnesses=[
        dict(pkg="./pkg/unixsocket", run="^VerifC19_RoundTrip$", replay="model", preempt=0, reach=["delivered", "rejected"]),
        dict(pkg="./pkg/unixsocket", run="^VerifC19_HostilePeer$", replay="model", preempt=0, reach=["delivered"]),
        dict(pkg=CT, run="^VerifC19_FramedCap$", replay="model", preempt=0, reach=["too-large", "fits"]),
        # sequences of three framed messages with failing / oversized sends on both real endpoints over an abstract gob stream (type description once, values after it)
        dict(pkg=CT, run="^VerifC19_FramedSequence$", replay="model", preempt=0, reach=["send-rejected", "delivered", "receive-rejected"]),
        # constructors: every step failing, each descriptor closed exactly once
        dict(pkg="./pkg/unixsocket", run="^VerifC19_Constructors$", replay="model", preempt=0, reach=["failed", "built"]),
    ],
)

PROPS["C20"] = dict(
    level="other",
    level_text=("Bounded symbolic execution / model checking of the cgroup library over a K-FS model of the hierarchy (mkdir atomic create-or-EEXIST; stat, mkdir, rmdir separate scheduling points): "
                "v2 New/Random/Destroy with symbolic pre-existence and a nondeterministic random source (collisions reachable); two concurrent creators of the same group on v1 and v2 under all "
                "interleavings within delay bound 2 (at most one owner, loser's cleanup never removes the winner's directory); readers on file contents with symbolic digits, malformed numerals, "
                "extra fields and missing files (value*1000 ns / bytes / count or an error, never a wrong number); AddProc/SetMemoryLimit/SetProcLimit write the decimal value to the group's own file."),
    level_note=SYMEX_NOTE + "That writing a pid moves the process is the kernel's part (outside).",
    explanation="cgroup.New/newV1/newV2/V2.New/Random/Destroy/EnsureDirExists/randomBuild/readers/writers over the cgfs model.",
    bounds={'sub-groups': '2 concurrent creators through one parent handle (v1 and v2); limits through a handle on a pre-existing group', "creators": "2 concurrent (delay bound 2)", "numerals": "1..3 symbolic decimal digits + 3 malformed variants", "written values": "all values < 100 symbolic, 4 large representatives",
            "random source": "values {1,2} for the first 4 draws"},
    outside=["v1 readers (same ReadUint code path)", "Nest/OpenExisting/cpuset initialisation", "kernel behaviour of cgroup files"],
    assumptions=["K-FS: mkdir is atomic; a new cgroup directory is populated with its control files"],
    harnesses=[
        dict(pkg="./pkg/cgroup", run="^VerifC20_V2Lifecycle$", replay="model", preempt=0, reach=["new", "random", "random-twice"]),
        dict(pkg="./pkg/cgroup", run="^VerifC20_V2ConcurrentNew$", replay="model", preempt=2, reach=["both-done"]),
        dict(pkg="./pkg/cgroup", run="^VerifC20_V1ConcurrentNew$", replay="model", preempt=2, reach=["both-done"]),
        dict(pkg="./pkg/cgroup", run="^VerifC20_V2ConcurrentSubNew$", replay="model", preempt=2, reach=["both-done"]),
        dict(pkg="./pkg/cgroup", run="^VerifC20_V1ConcurrentSubNew$", replay="model", preempt=2, reach=["both-done"]),
        dict(pkg="./pkg/cgroup", run="^VerifC20_Readers$", replay="model", preempt=0, timeout=900, reach=["cpu-valid", "cpu-malformed", "cpu-missing-field", "mem-valid", "missing-file"]),
        dict(pkg="./pkg/cgroup", run="^VerifC20_Writers$", replay="model", preempt=0, reach=["addproc", "memlimit", "proclimit"]),
        dict(pkg="./pkg/cgroup", run="^VerifC20_V1Lifecycle$", replay="model", preempt=0, reach=["created", "new-failed"]),
        dict(pkg="./pkg/cgroup", run="^VerifC20_AddProcMany$", replay="model", preempt=0, timeout=900, reach=["two-pids"]),
    ],
)

PROPS["C05"] = dict(
    level="other",
    level_text=("Bounded symbolic execution of both mount sequences (raw in-child section of forkAndExecInChild under the kernel model; container initFileSystem/Mount.Mount/maskPath with syscall stubs) "
                "for a table built by the real Builder (bind ro/rw of a directory or file, a filtered non-existent source, tmpfs, proc ro/rw) with the source's statfs flag word a 64-bit solver "
                "variable, judged by one K-MNT oracle: read-only entries are effectively read-only (a plain bind ignores MS_RDONLY), the read-only remount keeps every locked source flag, the root "
                "is a fresh tmpfs remounted read-only, the old root is detached and removed, nothing but the configured mount points is created, masked paths are covered."),
    level_note=SYMEX_NOTE + KERN_NOTE + "K-MNT clauses (bind ignores RDONLY; remount|bind replaces per-mount flags and must keep locked ones; fs mounts honour RDONLY) are the contract; that Linux implements them is outside.",
    explanation="mount section of forkAndExecInChild, mount.Builder, Mount.ToSyscall/pathPrefix, container.initFileSystem, Mount.Mount, maskPath executed symbolically.",
    bounds={'hand-built bind entry': 'any flag word over {BIND,RDONLY,NOSUID,NODEV,NOEXEC,PRIVATE,REC,NOATIME} with BIND set', "mount table": "4 entries (one filtered), nested target depth 2-3", "statfs flags": "all 2^64 words", "masked object": "file / directory / absent"},
    outside=["reachability through /proc magic links and kernel escapes", "nosuid/nodev of writable bind mounts (kernel ignores them without remount)"],
    assumptions=["K-MNT contract"],
    harnesses=[
        dict(pkg=FE, run="^VerifC05_RawMounts$", replay="model", preempt=0, reach=["execed", "read-only-entry", "writable-entry", "file-bind"]),
        dict(pkg=CT, run="^VerifC05_ContainerMounts$", replay="model", preempt=0, reach=["read-only-entry", "writable-entry", "mask-file", "mask-dir", "mask-absent"]),
        dict(pkg="./pkg/mount", run="^VerifC05_BuilderFlags$", replay="native", preempt=0, reach=["done"]),
    ],
)
NOT_APPLICABLE = {}
