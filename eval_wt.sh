#!/bin/bash
# eval_wt.sh <PID> <patch.diff (absolute)> [check-pid]: run the quick check of a property against a seeded change applied
# in the scratch worktree /tmp/wt_<PID> (never in /repo), with private evidence / replay directories; restores the worktree.
pid=$1; patch=$2; cp=${3:-$1}; wt=/tmp/wt_$pid
export GOFLAGS=-mod=mod GOPROXY=off
cd $wt || exit 9
git checkout -q -- . ; [ -d $wt/mutations ] && mv $wt/mutations /tmp/mutations_$pid
git apply --check "$patch" || { echo "PATCH-DOES-NOT-APPLY"; exit 8; }
git apply "$patch"; go build ./... || { echo "MUTANT-DOES-NOT-BUILD"; git checkout -q -- .; exit 7; }
tag=$(basename $(dirname $patch))
mkdir -p /tmp/ev_$pid /tmp/rp_$pid
cd /verif && VERIF_REPO=$wt VERIF_EVIDENCE_DIR=/tmp/ev_$pid VERIF_REPLAY_DIR=/tmp/rp_$pid VERIF_JOBS=${VERIF_JOBS:-5} ./check $cp --tier quick > /tmp/eval_${pid}_$tag.log 2>&1; rc=$?
cd $wt && git checkout -q -- . && git clean -fdq
echo "$pid $tag via $cp: rc=$rc $(grep -c '^VIOLATION' /tmp/eval_${pid}_$tag.log) violation line(s) $(grep -o 'harness=[A-Za-z0-9_]*' /tmp/eval_${pid}_$tag.log | sort -u | tr '\n' ' ') $(grep -m1 CHECK-ERROR /tmp/eval_${pid}_$tag.log | cut -c1-160)"
