#!/opt/veriftools/pyvenv/bin/python3
import json, jsonschema, sys, glob
jsonschema.validate(json.load(open('/verif/MANIFEST.json')), json.load(open('/root/.vp/MANIFEST.schema.json')))
print("manifest valid")
for f in sorted(glob.glob('/verif/evidence/*.json')):
    jsonschema.validate(json.load(open(f)), json.load(open('/root/.vp/EVIDENCE.schema.json')))
    print("evidence valid:", f)
