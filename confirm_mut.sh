#!/bin/bash
# confirm_mut.sh <PID> <k>: independently confirm mutation k of /tmp/wt_<PID> in that scratch worktree and,
# if confirmed, store it under /verif/seeded/<PID>_m<k>/ (patch.diff, demo, meta.json with what was run).
pid=$1; k=$2; label=${3:-}; wt=/tmp/wt_$pid; md=$wt/mutations/m$k
export GOFLAGS=-mod=mod GOPROXY=off
cd $wt || exit 9
git checkout -q -- . ; 
pkgdir=$(python3 -c "import json;print(json.load(open('$md/meta.json'))['demo_pkg_dir'])")
demo=$(ls $md/*_test.go | head -1)
tests=$(grep -o '^func Test[A-Za-z0-9_]*' $demo | sed 's/func //' | grep -v '^TestMain$' | paste -sd'|')
run_demo() { cp $demo $wt/$pkgdir/zz_demo_test.go; (cd $wt && timeout 300 go test -vet=off -count=1 -run "^($tests)\$" ./$pkgdir/ >/tmp/demo_${pid}_$k.log 2>&1); rc=$?; rm -f $wt/$pkgdir/zz_demo_test.go; return $rc; }
git apply --check $md/patch.diff || { echo "$pid m$k: patch does not apply"; exit 1; }
git apply $md/patch.diff
go build ./... || { echo "$pid m$k: does not build"; git checkout -q -- .; exit 1; }
pk=$(go list ./... | grep -v /mutations)
go test -vet=off -count=1 $pk > /tmp/suite_${pid}_$k.log 2>&1
fails=$(grep -E "^(--- FAIL|FAIL)" /tmp/suite_${pid}_$k.log | grep -v "TestCgroupAll\|pkg/cgroup\|^FAIL$" | head -3)
run_demo; with=$?
git checkout -q -- .
run_demo; without=$?
echo "$pid m$k: suite_fails=[$fails] demo_with_mutation_rc=$with demo_without_rc=$without"
if [ -z "$fails" ] && [ $with -ne 0 ] && [ $without -eq 0 ]; then
  d=/verif/seeded/${pid}_${label}m$k; mkdir -p $d; cp $md/patch.diff $d/; cp $demo $d/demo_test.go
  python3 - <<PY
import json
m=json.load(open('$md/meta.json'))
m['breaks_property']='$pid'
m['confirmed']={'patch_applies_to_repo_head':True,'builds':True,'existing_tests_pass_with_mutation':True,'demo_fails_with_mutation':True,'demo_passes_without':True,
 'ran':'in scratch worktree $wt: git apply patch.diff; go build ./...; go test -vet=off -count=1 <all pkgs>; demo copied to $pkgdir as zz_demo_test.go and run with go test -run; git checkout; demo again'}
json.dump(m,open('$d/meta.json','w'),indent=1)
PY
  echo "  stored $d"
fi
