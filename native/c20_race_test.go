package cgroup

import (
	"fmt"
	"os"
	"sync"
	"testing"
)

// Native R2 demonstration for the C20 finding on this machine's v1 hierarchy: two
// concurrent creators of the same group can both believe they created it (stat-then-mkdir).
func TestVerifNativeConcurrentCreatorsV1(t *testing.T) {
	if _, err := os.Stat("/sys/fs/cgroup/memory"); err != nil {
		t.Skip("no v1 memory hierarchy")
	}
	DetectedCgroupType = TypeV1
	ct := &Controllers{Memory: true}
	both := 0
	for it := 0; it < 400 && both == 0; it++ {
		name := fmt.Sprintf("verif_race_%d_%d", os.Getpid(), it)
		var wg sync.WaitGroup
		var cg [2]Cgroup
		var er [2]error
		start := make(chan struct{})
		for k := 0; k < 2; k++ {
			wg.Add(1)
			go func(k int) {
				defer wg.Done()
				<-start
				cg[k], er[k] = New(name, ct)
			}(k)
		}
		close(start)
		wg.Wait()
		owners := 0
		for k := 0; k < 2; k++ {
			if er[k] == nil && cg[k] != nil && !cg[k].Existing() {
				owners++
			}
		}
		if owners == 2 {
			both++
		}
		os.Remove("/sys/fs/cgroup/memory/" + name)
	}
	if both > 0 {
		t.Fatalf("REPRODUCED: two concurrent creators both own the same v1 group")
	}
}

// Random must not hand out a group that already exists.
func TestVerifNativeRandomCollision(t *testing.T) {
	if _, err := os.Stat("/sys/fs/cgroup/memory"); err != nil {
		t.Skip("no v1 memory hierarchy")
	}
	DetectedCgroupType = TypeV1
	ct := &Controllers{Memory: true}
	parentName := fmt.Sprintf("verif_rand_%d", os.Getpid())
	parent, err := New(parentName, ct)
	if err != nil {
		t.Skip(err)
	}
	defer parent.Destroy()
	seen := map[string]bool{}
	for i := 0; i < 3; i++ {
		cg, err := parent.Random("x*")
		if err != nil {
			t.Fatal(err)
		}
		defer cg.Destroy()
		s := fmt.Sprint(cg)
		if seen[s] {
			t.Fatalf("REPRODUCED: Random returned the same group twice: %s", s)
		}
		seen[s] = true
	}
}
