package container

import (
	"strings"
	"testing"

	"github.com/criyle/go-sandbox/pkg/unixsocket"
)

// Native check of a candidate: the first message of a type is rejected by the 32 KiB cap
// (its gob type description is dropped with it); is a later, fitting message still received?
func TestVerifNativeFirstMessageOversized(t *testing.T) {
	a, b, err := unixsocket.NewSocketPair()
	if err != nil {
		t.Fatal(err)
	}
	defer a.Close()
	defer b.Close()
	snd, rcv := newSocket(a), newSocket(b)
	big := cmd{Cmd: cmdDelete, DeleteCmd: &deleteCmd{Path: strings.Repeat("x", 40000)}}
	if err := snd.SendMsg(big, unixsocket.Msg{}); err == nil {
		t.Fatal("oversized message accepted")
	} else {
		t.Log("first send:", err)
	}
	if err := snd.SendMsg(cmd{Cmd: cmdPing}, unixsocket.Msg{}); err != nil {
		t.Fatal("fitting message refused:", err)
	}
	var got cmd
	if _, err := rcv.RecvMsg(&got); err != nil {
		t.Fatalf("REPRODUCED: a fitting message sent after a rejected first message is not received: %v", err)
	}
	t.Log("received", got.Cmd)
}
