package unixsocket

import (
	"os"
	"syscall"
	"testing"
)

// Native demonstration (run under `strace -f -e trace=socketpair,close,fcntl`): with the
// descriptor limit set so that socketpair(2) succeeds but the duplication inside
// net.FileConn fails with EMFILE, NewSocketPair closes a descriptor that NewSocket's
// deferred file.Close() has already closed: the trace shows close(N) = 0 followed by
// close(N) = -1 EBADF for the same N.
func TestVerifNativeCtorDoubleClose(t *testing.T) {
	// occupy every free descriptor below 100, so that the pair gets 100 and 101
	var keep []*os.File
	for {
		f, err := os.Open("/dev/null")
		if err != nil {
			t.Fatal(err)
		}
		if f.Fd() >= 100 {
			f.Close()
			break
		}
		keep = append(keep, f)
	}
	defer func() {
		for _, f := range keep {
			f.Close()
		}
	}()
	var old syscall.Rlimit
	syscall.Getrlimit(syscall.RLIMIT_NOFILE, &old)
	lim := old
	lim.Cur = 102 // room for exactly the two descriptors of the pair
	if err := syscall.Setrlimit(syscall.RLIMIT_NOFILE, &lim); err != nil {
		t.Fatal(err)
	}
	a, b, err := NewSocketPair()
	syscall.Setrlimit(syscall.RLIMIT_NOFILE, &old)
	if err == nil {
		a.Close()
		b.Close()
		t.Skip("descriptor limit did not bite")
	}
	t.Log("NewSocketPair failed as intended:", err)
}
