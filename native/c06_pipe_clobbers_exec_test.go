package forkexec

import (
	"os"
	"syscall"
	"testing"
)

// Native R1 demonstration for the C06 finding: when the sync socket has to be moved to the
// scratch area and the executable descriptor sits exactly on the first scratch slot
// (ExecFile == max(listed)+1), the move overwrites the executable descriptor.
func TestVerifNativePipeMoveClobbersExecFile(t *testing.T) {
	f, err := os.Open("/bin/true")
	if err != nil {
		t.Skip(err)
	}
	defer f.Close()
	if err := syscall.Dup3(1, 40, syscall.O_CLOEXEC); err != nil {
		t.Fatal(err)
	}
	defer syscall.Close(40)
	if err := syscall.Dup3(int(f.Fd()), 41, syscall.O_CLOEXEC); err != nil {
		t.Fatal(err)
	}
	defer syscall.Close(41)
	r := &Runner{Args: []string{"true"}, Env: []string{}, ExecFile: 41, Files: []uintptr{0, 1, 2, 40}}
	pid, err := r.Start()
	if err != nil {
		t.Fatalf("REPRODUCED: launching a valid configuration failed: %v", err)
	}
	var ws syscall.WaitStatus
	syscall.Wait4(pid, &ws, 0, nil)
	if !ws.Exited() || ws.ExitStatus() != 0 {
		t.Fatalf("REPRODUCED: /bin/true did not run: %v", ws)
	}
}
