package forkexec

import (
	"syscall"
	"testing"
)

// Native R1 demonstration for the C07 known finding: with Ptrace+Seccomp Start returns as
// soon as the child is about to stop for the tracer; a launch step failing after that point
// (here: an invalid filter makes seccomp(2) fail) is not reported by Start at all.
func TestVerifNativeSilentLaunchFailure(t *testing.T) {
	bad := []syscall.SockFilter{{Code: 0xffff}} // rejected by the kernel's filter checker
	r := &Runner{Args: []string{"/bin/true"}, Env: []string{}, Files: []uintptr{0, 1, 2}, Ptrace: true,
		Seccomp: &syscall.SockFprog{Len: 1, Filter: &bad[0]}}
	pid, err := r.Start()
	if err != nil {
		t.Logf("Start reported the failure: %v", err)
		return
	}
	// play the tracer: resume the stopped child and see it die before exec
	var ws syscall.WaitStatus
	syscall.Wait4(pid, &ws, 0, nil)
	if ws.Stopped() {
		syscall.PtraceCont(pid, 0)
		syscall.Wait4(pid, &ws, 0, nil)
	}
	if ws.Exited() && ws.ExitStatus() != 0 {
		t.Fatalf("REPRODUCED: Start returned (pid=%d, nil) but the child failed the seccomp step and exited with %d without exec", pid, ws.ExitStatus())
	}
	syscall.Kill(pid, syscall.SIGKILL)
}
