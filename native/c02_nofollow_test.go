package ptrace

import (
	"os"
	"path/filepath"
	"testing"
)

// Native demonstration of the C02 final-component finding: unlink(2) (like lstat, readlink,
// rename, mkdir, mknod) acts on a symbolic link itself, but the path the handler builds for
// the policy (getString -> absPath) is the link's target.
func TestVerifNativeUnlinkChecksTarget(t *testing.T) {
	dir, err := filepath.EvalSymlinks(t.TempDir())
	if err != nil {
		t.Fatal(err)
	}
	protected, writable := filepath.Join(dir, "protected"), filepath.Join(dir, "writable")
	os.Mkdir(protected, 0755)
	os.Mkdir(writable, 0755)
	target := filepath.Join(writable, "x")
	os.WriteFile(target, []byte("data"), 0644)
	link := filepath.Join(protected, "link")
	if err := os.Symlink(target, link); err != nil {
		t.Fatal(err)
	}
	presented := absPath(os.Getpid(), link) // what checkWrite() hands to the policy for unlink(link)
	if err := os.Remove(link); err != nil { // what the kernel does for unlink(link)
		t.Fatal(err)
	}
	_, linkErr := os.Lstat(link)
	_, targetErr := os.Stat(target)
	t.Logf("policy asked about %q; kernel removed %q (link gone: %v, target still there: %v)", presented, link, linkErr != nil, targetErr == nil)
	if presented != link {
		t.Fatalf("REPRODUCED: unlink(%q) is checked as a write to %q, but the kernel removes the link in %q", link, presented, protected)
	}
}
