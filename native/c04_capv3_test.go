package forkexec

import (
	"os"
	"strings"
	"testing"
	"unsafe"
)

// Native check of a candidate: capset(2) with _LINUX_CAPABILITY_VERSION_3 reads TWO
// cap_user_data structs (24 bytes); dropCapData is ONE (12 bytes).  The upper capability
// words (capabilities 32..40) are whatever follows dropCapData in memory.
func TestVerifNativeCapsetV3ReadsTwoStructs(t *testing.T) {
	tail := (*[24]byte)(unsafe.Pointer(&dropCapData))[12:]
	t.Logf("the 12 bytes the kernel reads after dropCapData in this binary: %v", *(*[12]byte)(tail))
	if os.Getuid() != 0 {
		t.Skip("needs root")
	}
	r, w, _ := os.Pipe()
	run := &Runner{Args: []string{"/bin/cat", "/proc/self/status"}, Env: []string{"PATH=/bin"}, Files: []uintptr{0, w.Fd(), 2}, DropCaps: true}
	pid, err := run.Start()
	w.Close()
	if err != nil {
		t.Fatal(err)
	}
	buf := make([]byte, 8192)
	n, _ := r.Read(buf)
	var st os.ProcessState
	_ = st
	p, _ := os.FindProcess(pid)
	p.Wait()
	for _, line := range strings.Split(string(buf[:n]), "\n") {
		if strings.HasPrefix(line, "Cap") {
			t.Log(line)
			f := strings.Fields(line)
			if (f[0] == "CapEff:" || f[0] == "CapPrm:" || f[0] == "CapInh:") && strings.Trim(f[1], "0") != "" {
				t.Errorf("REPRODUCED: %s is not empty after DropCaps", line)
			}
		}
	}
}
