package libseccomp

import (
	"sort"
	"testing"

	"github.com/elastic/go-seccomp-bpf/arch"
)

// Native check of the C01 thorough finding: a policy with 300 allow + 60 trace entries.
func TestVerifNativeLargePolicy(t *testing.T) {
	info, err := arch.GetInfo("")
	if err != nil {
		t.Skip(err)
	}
	var names []string
	for n := range info.SyscallNames {
		names = append(names, n)
	}
	sort.Strings(names)
	if len(names) < 360 {
		t.Skipf("only %d syscalls", len(names))
	}
	b := Builder{Allow: names[:300], Trace: names[300:360], Default: ActionTrace}
	f, err := b.Build()
	if err != nil {
		t.Fatalf("build: %v", err)
	}
	t.Logf("program length %d", len(f))
	if !kernelAccepts(f) {
		for pc, in := range f {
			switch in.Code {
			case 0x15, 0x25, 0x35, 0x45:
				if pc+1+int(in.Jt) >= len(f) || pc+1+int(in.Jf) >= len(f) {
					t.Logf("pc %d: jt=%d jf=%d out of range (len %d)", pc, in.Jt, in.Jf, len(f))
				}
			case 0x05:
				if in.K >= uint32(len(f)-pc-1) {
					t.Logf("pc %d: ja %d out of range (len %d)", pc, in.K, len(f))
				}
			}
		}
		t.Fatalf("REPRODUCED: the kernel would reject the generated program")
	}
	// every listed syscall must get its action
	var args [6]uint64
	for i, n := range names[:360] {
		ret, ok := evalSeccompBPF(f, uint32(info.SyscallNames[n]), auditArchX86_64, 0, args)
		want := uint32(retAllow)
		if i >= 300 {
			want = retTrace
		}
		if !ok || ret&retActionFull != want {
			t.Fatalf("REPRODUCED: %s (nr %d): ret=%#x ok=%v want %#x", n, info.SyscallNames[n], ret, ok, want)
		}
	}
}
