package ptracer

import (
	"os"
	"testing"
	"unsafe"
)

// Native R1 demonstration for the C15 finding: a PATH_MAX-sized unterminated string in
// tracee memory made GetString panic (clen returned len+1).
func TestVerifNativeUnterminatedString(t *testing.T) {
	buf := make([]byte, 3*4096)
	for i := range buf {
		buf[i] = 'a'
	}
	c := &Context{Pid: os.Getpid()}
	defer func() {
		if p := recover(); p != nil {
			t.Fatalf("REPRODUCED: GetString panicked: %v", p)
		}
	}()
	s := c.GetString(uintptr(unsafe.Pointer(&buf[0])))
	if len(s) > 4096 {
		t.Fatalf("REPRODUCED: %d bytes returned", len(s))
	}
}
