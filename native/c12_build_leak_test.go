package container

import (
	"os"
	"path/filepath"
	"strings"
	"testing"
	"time"
)

func childPids(t *testing.T) map[string]bool {
	out := map[string]bool{}
	tasks, _ := filepath.Glob("/proc/self/task/*/children")
	for _, f := range tasks {
		b, _ := os.ReadFile(f)
		for _, p := range strings.Fields(string(b)) {
			out[p] = true
		}
	}
	return out
}

// Native demonstration: Build fails after the container init has been started (temporary
// root cannot be created) and returns no handle - the init process must not be left running.
func TestVerifNativeBuildFailureLeavesInit(t *testing.T) {
	before := childPids(t)
	b := &Builder{Root: "/nonexistent-dir-for-verif", TmpRoot: "env-*", Stderr: os.Stderr}
	env, err := b.Build()
	if err == nil {
		env.Destroy()
		t.Skip("Build unexpectedly succeeded")
	}
	t.Log("Build failed as intended:", err)
	time.Sleep(200 * time.Millisecond)
	var left []string
	for p := range childPids(t) {
		if !before[p] {
			if st, e := os.ReadFile("/proc/" + p + "/stat"); e == nil && !strings.Contains(string(st), ") Z ") {
				left = append(left, p)
			}
		}
	}
	if len(left) > 0 {
		t.Fatalf("REPRODUCED: Build returned an error and no handle, but the container init it started is still running: pid %v", left)
	}
}
