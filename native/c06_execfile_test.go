package forkexec

import (
	"os"
	"syscall"
	"testing"
)

// Native R1 demonstration for the C06 finding: with the vfork path (no SyncFunc, no user
// namespace) the child's "r.ExecFile = nextfd" is visible in the caller's Runner.
func TestVerifNativeExecFileNotModified(t *testing.T) {
	f, err := os.Open("/bin/true")
	if err != nil {
		t.Skip(err)
	}
	defer f.Close()
	hi, err := syscall.Dup(1)
	if err != nil {
		t.Fatal(err)
	}
	if err := syscall.Dup3(hi, 40, syscall.O_CLOEXEC); err != nil {
		t.Fatal(err)
	}
	syscall.Close(hi)
	defer syscall.Close(40)
	r := &Runner{Args: []string{"true"}, Env: []string{}, ExecFile: f.Fd(), Files: []uintptr{0, 1, 2, 40}}
	before := r.ExecFile
	pid, err := r.Start()
	if err != nil {
		t.Fatalf("start: %v", err)
	}
	var ws syscall.WaitStatus
	syscall.Wait4(pid, &ws, 0, nil)
	if r.ExecFile != before {
		t.Fatalf("REPRODUCED: Runner.ExecFile changed from %d to %d by Start", before, r.ExecFile)
	}
}
