package unixsocket

import (
	"os"
	"testing"
)

func countFds(t *testing.T) int {
	es, err := os.ReadDir("/proc/self/fd")
	if err != nil {
		t.Fatal(err)
	}
	return len(es)
}

// Native R1 demonstration for the C19 finding: a message that does not fit the receive
// buffer is rejected, but the descriptor that arrived with it stays open in the receiver.
func TestVerifNativeTruncatedMessageLeaksFd(t *testing.T) {
	a, b, err := NewSocketPair()
	if err != nil {
		t.Fatal(err)
	}
	defer a.Close()
	defer b.Close()
	f, err := os.Open("/dev/null")
	if err != nil {
		t.Fatal(err)
	}
	defer f.Close()
	before := countFds(t)
	if err := a.SendMsg(make([]byte, 100), Msg{Fds: []int{int(f.Fd())}}); err != nil {
		t.Fatal(err)
	}
	_, msg, err := b.RecvMsg(make([]byte, 10))
	if err == nil {
		t.Fatalf("truncated message delivered as success: %v", msg)
	}
	after := countFds(t)
	if after != before {
		t.Fatalf("REPRODUCED: %d descriptor(s) leaked by a rejected (truncated) message", after-before)
	}
}
