package container

import (
	"context"
	"testing"
)

// Native R1 demonstrations for the two C10 findings: request/program caused execve
// failures must leave the environment usable (a following Ping succeeds).
func TestVerifNativeExecFailsAfterSync(t *testing.T) {
	m := getEnv(t, nil)
	// /etc/passwd exists and passes the lookup, but execve fails after the sync was acknowledged
	r := m.Execve(context.Background(), ExecveParam{Args: []string{"/etc/passwd"}, Env: []string{PathEnv},
		Files: []uintptr{0, 1, 2}, SyncFunc: func(pid int) error { return nil }})
	t.Logf("result: %v", r)
	if err := m.Ping(); err != nil {
		t.Fatalf("REPRODUCED: environment unusable after an exec failure: %v", err)
	}
}

func TestVerifNativeEmptyArgs(t *testing.T) {
	m := getEnv(t, nil)
	r := m.Execve(context.Background(), ExecveParam{Args: nil, Env: []string{PathEnv}, Files: []uintptr{0, 1, 2}})
	t.Logf("result: %v", r)
	if err := m.Ping(); err != nil {
		t.Fatalf("REPRODUCED: environment unusable after an empty argument list: %v", err)
	}
}
