package ptracer

import (
	"context"
	"runtime"
	"syscall"
	"testing"
	"time"

	"github.com/criyle/go-sandbox/pkg/forkexec"
	"github.com/criyle/go-sandbox/runner"
)

type nativeAllowHandler struct{}

func (nativeAllowHandler) Handle(*Context) TraceAction { return TraceAllow }
func (nativeAllowHandler) Debug(v ...interface{})      {}

// Native R2 demonstration for the C11 finding: with an already-cancelled context the
// canceller's kill(-pgid) can run before the child has called setsid (ESRCH); nothing kills
// the program afterwards and the run lasts as long as the program does.  A long descriptor
// list widens the window (the child shuffles descriptors before setsid).
func TestVerifNativeLostCancellation(t *testing.T) {
	var lim syscall.Rlimit
	syscall.Getrlimit(syscall.RLIMIT_NOFILE, &lim)
	n := 4000
	if int(lim.Cur) < n+50 {
		n = int(lim.Cur) - 50
	}
	files := []uintptr{0, 1, 2}
	for i := 0; i < n; i++ {
		files = append(files, 1)
	}
	allow := []syscall.SockFilter{{Code: 6, K: 0x7fff0000}}
	lost := 0
	for it := 0; it < 5 && lost == 0; it++ {
		r := &forkexec.Runner{Args: []string{"/bin/sleep", "3"}, Env: []string{"PATH=/bin:/usr/bin"}, Files: files, Ptrace: true,
			Seccomp: &syscall.SockFprog{Len: 1, Filter: &allow[0]}}
		tr := &Tracer{Handler: nativeAllowHandler{}, Runner: r, Limit: runner.Limit{TimeLimit: time.Hour, MemoryLimit: 1 << 40}}
		ctx, cancel := context.WithCancel(context.Background())
		cancel()
		start := time.Now()
		res := tr.Trace(ctx)
		d := time.Since(start)
		t.Logf("run %d: %v %q after %v", it, res.Status, res.Error, d)
		if d > 2*time.Second {
			lost++
		}
		runtime.Gosched()
	}
	if lost > 0 {
		t.Fatalf("REPRODUCED: a run under an already-cancelled context lasted as long as the program (cancellation lost)")
	}
}
