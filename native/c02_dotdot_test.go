package ptrace

import (
	"os"
	"path/filepath"
	"syscall"
	"testing"
)

// Native R1 demonstration for the C02 known finding: '..' after a symbolic link is collapsed
// lexically before the link is expanded, so the policy is asked about a different object
// than the one the kernel resolves the name to.
func TestVerifNativeDotDotAfterSymlink(t *testing.T) {
	T, err := os.MkdirTemp("", "c02")
	if err != nil {
		t.Fatal(err)
	}
	defer os.RemoveAll(T)
	T, _ = filepath.EvalSymlinks(T)
	os.MkdirAll(filepath.Join(T, "d", "e"), 0755)
	os.WriteFile(filepath.Join(T, "d", "d"), []byte("x"), 0644)
	os.Symlink(filepath.Join(T, "d", "e"), filepath.Join(T, "a"))
	old, _ := os.Getwd()
	defer os.Chdir(old)
	os.Chdir(T)
	// what the kernel opens for "a/../d"
	fd, err := syscall.Open("a/../d", syscall.O_RDONLY|0x200000 /* O_PATH */, 0)
	if err != nil {
		t.Fatal(err)
	}
	defer syscall.Close(fd)
	kernel, _ := os.Readlink("/proc/self/fd/" + itoa(fd))
	policy := absPath(os.Getpid(), "a/../d")
	t.Logf("kernel resolves to %s, policy is asked about %s", kernel, policy)
	if kernel != policy {
		t.Fatalf("REPRODUCED: policy consulted about %s but the kernel touches %s", policy, kernel)
	}
}

func itoa(n int) string {
	if n == 0 {
		return "0"
	}
	s := ""
	for n > 0 {
		s = string(rune('0'+n%10)) + s
		n /= 10
	}
	return s
}
