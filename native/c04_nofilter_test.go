package unshare

import (
	"context"
	"testing"
	"time"

	"github.com/criyle/go-sandbox/runner"
)

// Native demonstration: a namespace run configured WITHOUT a seccomp filter (a legal
// combination: the launcher treats a nil filter as "none") makes the runner itself panic.
func TestVerifNativeRunWithoutFilter(t *testing.T) {
	defer func() {
		if p := recover(); p != nil {
			t.Fatalf("REPRODUCED: Run without a filter panics: %v", p)
		}
	}()
	r := &Runner{Args: []string{"/bin/true"}, Root: t.TempDir(), Limit: runner.Limit{TimeLimit: time.Minute, MemoryLimit: 1 << 30}}
	res := r.Run(context.Background())
	t.Log(res.Status, res.Error)
}
