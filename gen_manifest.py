#!/usr/bin/env python3
"""Regenerates MANIFEST.json from checks_config.py (claimed checks) and NOT_APPLICABLE below."""
import json, os, sys
sys.path.insert(0, os.path.dirname(os.path.abspath(__file__)))
from checks_config import PROPS, NOT_APPLICABLE, HOOK_COMMITS

ALL = ["C%02d" % k for k in range(1, 21)]
checks = []
for pid in ALL:
    if pid not in PROPS:
        continue
    p = PROPS[pid]
    checks.append({
        "property_id": pid,
        "quick_cmd": "./check %s --tier quick" % pid,
        "thorough_cmd": "./check %s --tier thorough" % pid,
        "evidence_file": "/verif/evidence/%s.json" % pid,
        "replay_cmd_template": "./check %s --replay {path}" % pid,
        "engine": "symgo",
        "level_claimed": {"category": p["level"], "text": p["level_text"], "design_ref": p.get("design_ref", "DESIGN.md §5 " + pid)},
        "level_note": p["level_note"],
        "technique": p.get("technique", "bounded symbolic execution of the real go/ssa with z3 deciding every branch and assertion; counterexamples replayed"),
    })
na = [{"property_id": pid, "reason": NOT_APPLICABLE[pid]} for pid in ALL if pid not in PROPS]
m = {
    "version": 1,
    "setup_cmd": "cd /verif && ./setup.sh",
    "hooks": {
        "guard": "verif",
        "enable": "go build -tags verif (no hook is currently required: all harnesses are go/packages overlays of /repo, nothing is compiled into the repository)",
        "baseline_off_cmd": "cd /repo && go test -vet=off -count=1 ./...",
        "source_commits": HOOK_COMMITS,
        "add_only": True,
    },
    "engines": [{"name": "symgo", "path": "/verif/engine", "serves_properties": [c["property_id"] for c in checks],
                 "kind_free_text": "path-enumerating symbolic interpreter for go/ssa (x/tools v0.29.0) over the real /repo sources + interpreted kernel contract model; z3 -in decides branches, bounds checks and assertions; native/model replay of counterexamples"}],
    "checks": checks,
    "not_applicable": na,
    "notes": "All checks rebuild the SSA of /repo's working tree on every run via go/packages overlays (harness/). known_findings.json lists genuine defects (known / fixed).",
}
json.dump(m, open(os.path.join(os.path.dirname(os.path.abspath(__file__)), "MANIFEST.json"), "w"), indent=1)
print("claimed:", [c["property_id"] for c in checks], "not_applicable:", [n["property_id"] for n in na])
