#!/bin/bash
# regress_focus.sh <catch_map.json> <worker k> <of n> : like regress_seeded.sh, but each seeded change is run only
# against the harnesses that are recorded to catch it (fast re-validation after harness/engine changes).
set -u
MAP=$1; K=$2; N=$3
W=/tmp/repo_focus_$$; S=/tmp/verif_focus_$$
rsync -a --exclude .git --exclude replays --exclude evidence /verif/ $S/
cd /repo && git worktree add -q --detach $W HEAD || exit 9
export VERIF_REPO=$W VERIF_EVIDENCE_DIR=$S/evidence VERIF_REPLAY_DIR=$S/replays VERIF_JOBS=3
mkdir -p $S/evidence $S/replays
i=0
for d in $S/seeded/*/; do
  id=$(basename $d); pid=${id%%_*}; i=$((i+1))
  [ $((i % N)) -eq $K ] || continue
  only=$(python3 -c "import json,sys; m=json.load(open('$MAP')); h=m.get('$id'); print('('+'|'.join(h[:2])+')[$]' if h else '')")
  [ -n "$only" ] || continue
  cd $W && git checkout -q -- . && git clean -fdq
  if ! git apply --check $d/patch.diff 2>/dev/null; then echo "$id: PATCH-DOES-NOT-APPLY"; continue; fi
  git apply $d/patch.diff
  # the harness may be registered under another property than the one the change was written for
  hp=$(cd $S && python3 -c "
import re,sys
sys.path.insert(0,'.')
import checks_config as c
pat=re.compile(r'''$only''')
cands=[p for p in c.PROPS if any(pat.search(h['run']) and 'quick' in h.get('tiers',['quick','thorough']) for h in c.PROPS[p]['harnesses'])]
print('$pid' if '$pid' in cands else (cands[0] if cands else '$pid'))")
  cd $S && ./check $hp --tier quick --only "$only" > /tmp/focus_$id.log 2>&1; rc=$?
  echo "$id: rc=$rc via=$hp only=$only $(grep -c VIOLATION /tmp/focus_$id.log) violation line(s) $(grep -o "harness=[A-Za-z0-9_]*" /tmp/focus_$id.log | sort -u | tr '\n' ' ') $(grep -m1 CHECK-ERROR /tmp/focus_$id.log | cut -c1-120)"
done
cd /repo && git worktree remove --force $W; rm -rf $S
