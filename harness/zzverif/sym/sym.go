// Package sym is the harness vocabulary of the symgo engine.
//
// Under symgo every function below is an engine intrinsic (the bodies here are
// never interpreted).  Compiled natively (go test -overlay) the same functions
// read a counterexample assignment from $SYMGO_ASSIGNMENT (JSON written by the
// engine) so that a harness can be replayed against the real build.
package sym

import (
	"encoding/json"
	"fmt"
	"os"
	"reflect"
	"strings"
	"unsafe"
)

type replayData struct {
	Assignment map[string]uint64 `json:"assignment"`
	Choices    []string          `json:"choices"`
}

var (
	loaded   bool
	data     replayData
	counts   = map[string]int{}
	chooseAt = 0
	// Failures collects failed assertions during a native replay.
	Failures []string
	// Reached collects labels hit during a native replay.
	Reached = map[string]bool{}
)

func load() {
	if loaded {
		return
	}
	loaded = true
	p := os.Getenv("SYMGO_ASSIGNMENT")
	if p == "" {
		return
	}
	b, err := os.ReadFile(p)
	if err != nil {
		panic(err)
	}
	if err := json.Unmarshal(b, &data); err != nil {
		panic(err)
	}
}

func sanitize(name string) string {
	var sb strings.Builder
	for _, c := range name {
		switch {
		case c >= 'a' && c <= 'z', c >= 'A' && c <= 'Z', c >= '0' && c <= '9', c == '_', c == '.':
			sb.WriteRune(c)
		default:
			sb.WriteByte('_')
		}
	}
	if sb.Len() == 0 {
		return "v"
	}
	return sb.String()
}

func get(name string, w int) uint64 {
	load()
	base := sanitize(name)
	counts[base]++
	full := base
	if n := counts[base]; n > 1 {
		full = fmt.Sprintf("%s.%d", base, n)
	}
	full = fmt.Sprintf("%s_w%d", full, w)
	return data.Assignment[full]
}

func U64(name string) uint64      { return get(name, 64) }
func U32(name string) uint32      { return uint32(get(name, 32)) }
func U16(name string) uint16      { return uint16(get(name, 16)) }
func U8(name string) uint8        { return uint8(get(name, 8)) }
func I64(name string) int64       { return int64(get(name, 64)) }
func I32(name string) int32       { return int32(get(name, 32)) }
func Int(name string) int         { return int(get(name, 64)) }
func Uintptr(name string) uintptr { return uintptr(get(name, 64)) }
func Bool(name string) bool       { return get(name, 0) != 0 }
func Bytes(name string, n int) []byte {
	r := make([]byte, n)
	for k := range r {
		r[k] = byte(get(fmt.Sprintf("%s_%d", name, k), 8))
	}
	return r
}
func Str(name string, n int) string { return string(Bytes(name, n)) }

// Choose returns a nondeterministic value in [0,n).
func Choose(name string, n int) int {
	load()
	for chooseAt < len(data.Choices) {
		c := data.Choices[chooseAt]
		chooseAt++
		if strings.HasPrefix(c, name+"=") {
			var v int
			fmt.Sscanf(c[len(name)+1:], "%d", &v)
			return v
		}
	}
	return 0
}

// Assume restricts the inputs considered; natively an assignment violating it is a harness bug.
func Assume(c bool) {
	if !c {
		panic("sym.Assume violated by the replayed assignment")
	}
}

// Assert states the property.
func Assert(c bool, msg string) {
	if !c {
		Failures = append(Failures, msg)
	}
}

func Reach(label string)               { Reached[label] = true }
func Note(v any)                       {}
func Notef(format string, args ...any) {}
func Extra(key string, v any)          {}
func Intercept(name string, fn any)    {}
func Unintercept(name string)          {}
func IsSymbolic(v any) bool            { return false }
func Concrete(x uint64) uint64         { return x }
func ConcreteInt(x int) int            { return x }
func ConcreteStr(s string) string      { return s }
func Ite64(c bool, a, b uint64) uint64 {
	if c {
		return a
	}
	return b
}
func Yield()                         {}
func WaitUntil(pred func() bool)     {}
func WaitOthers()                    {}
func ThreadID() int                  { return 0 }
func Pid() int                       { return 0 }
func SetPid(p int)                   {}
func ThreadsAlive() int              { return 0 }
func ExitThread(code int)            {}
func PtrOf(u uintptr) unsafe.Pointer { return unsafe.Pointer(u) }
func IsPtr(u uintptr) bool           { return u != 0 }
func BytesAt(u uintptr, n int) []byte {
	if u == 0 {
		return nil
	}
	return unsafe.Slice((*byte)(unsafe.Pointer(u)), n)
}
func CString(u uintptr) string {
	if u == 0 {
		return ""
	}
	var b []byte
	for p := u; ; p++ {
		c := *(*byte)(unsafe.Pointer(p))
		if c == 0 {
			break
		}
		b = append(b, c)
	}
	return string(b)
}
func Snapshot(u uintptr) any        { return nil }
func Restore(u uintptr, s any) bool { return false }
func MutexHeld(m any) bool          { return false }
func MutexReaders(m any) int        { return 0 }

// RawAddr returns the integer a foreign pointer was made from ((*T)(unsafe.Pointer(uintptr))).
func RawAddr(p *byte) uintptr { return uintptr(unsafe.Pointer(p)) }

// PtrToken returns the address token of a real pointer.
func PtrToken(p *byte) uintptr { return uintptr(unsafe.Pointer(p)) }

// KillPid ends the interpreter threads of a model process.
func KillPid(pid int) {}

// U32sAt views n uint32 cells at an address token.
func U32sAt(u uintptr, n int) []uint32 {
	if u == 0 {
		return nil
	}
	return unsafe.Slice((*uint32)(unsafe.Pointer(u)), n)
}

// PtrTokenOf returns the address token of any pointer.
func PtrTokenOf(p any) uintptr { return 0 }

// InnerPtr returns the address of the first field of the struct p points to (Go: the same
// address as p itself; the interpreter keeps them apart), e.g. &conn.conn for a *net.UnixConn.
func InnerPtr(p any) unsafe.Pointer { return reflect.ValueOf(p).UnsafePointer() }

// Outputs collects values reported by selftest harnesses during a native run.
var Outputs = map[string]string{}

// Output reports a named value of a concrete self-test run (engine: recorded in the result
// file; native: collected in Outputs) so that interpreter and native results can be compared.
func Output(key string, v any) { Outputs[key] = fmt.Sprint(v) }
