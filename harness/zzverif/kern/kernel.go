package kern

// Kernel contract model (interpreted by symgo together with the code under test).
// Clauses are written from the man pages; each is named in the comments (K-FD, K-CRED,
// K-NS, K-PROC, K-SOCK, K-FAULT) and listed in the evidence files of the checks using it.

import (
	"strings"
	"syscall"
	"unsafe"

	"golang.org/x/sys/unix"

	"github.com/criyle/go-sandbox/zzverif/sym"
)

// ---------------------------------------------------------------- data

type Msg struct {
	Snap any // snapshot of the written object (typed memory)
	N    int // byte count
	Data []byte
}

// Stream is a connected pair of stream sockets; end e reads Q[e] and writes Q[1-e].
type Stream struct {
	Q    [2][]Msg
	Refs [2]int // open descriptors per end (over all processes)
}

type FileObj struct {
	ID   int
	Name string
	S    *Stream
	End  int
}

type FDEnt struct {
	File    *FileObj
	Cloexec bool
}

type Mount struct {
	Source, Target, FsType string
	Flags                  uintptr
	Data                   string
	Remount                bool
}

const (
	StRunning = iota
	StZombie
	StReaped
)

type Proc struct {
	Pid, PPid int
	State     int
	ExitCode  int
	KilledBy  int
	VM        bool
	Vfork     bool
	Released  bool // exec'ed or exited (vfork parent may continue)

	Fds map[int]*FDEnt

	Uid, Gid         uint32
	Groups           []uint32
	SetgroupsCalled  bool
	CapEff, CapPrm   uint64
	CapInh, CapAmb   uint64
	Securebits       uintptr
	NNP              bool
	Filters          []unsafe.Pointer
	FilterFlags      []uintptr
	Sid, Pgid        int
	NS               uintptr
	Cwd              string
	Host, Domain     string
	Rlim             map[int]syscall.Rlimit
	Mounts           []Mount
	Pivoted          bool
	OldRootDetached  bool
	OldRootRemoved   bool
	RootReadonly     bool
	RootPrivate      bool
	Traceme          bool
	SelfStopped      bool
	CTTY             bool
	IntoCgroup       int
	UnsharedCgroup   bool
	Execed           bool
	ExecPath         string
	ExecFd           int
	ExecAtEmptyPath  bool
	ExecFile         *FileObj       // open file designated by the descriptor given to execveat
	ExecFds          map[int]*FDEnt // table right after exec
	ExecCapEff       uint64
	ExecCapPrm       uint64
	Calls            []string
	PrivAfterFilter  string // first privileged step issued after a filter was loaded
	SyncReadBlocked  bool   // currently blocked reading the sync socket
	StepsAfterSyncRd int
	Mkdirs           []string
	Mknods           []string
	CloneFlags       uintptr
	Stopped          bool   // in a ptrace stop, waiting for the tracer
	StopStatus       uint32 // wait status of the pending stop
	StopReported     bool
	Continued        int
}

type Kernel struct {
	Procs           map[int]*Proc
	NextPid         int
	NextFile        int
	FaultsLeft      int    // K-FAULT: how many more calls may fail
	FaultAt         string // site of the injected fault ("" none), as "<site>#<occurrence>"
	FaultOnly       string // when set, only these sites (comma separated) may fail
	FaultSeen       map[string]int
	FaultProc       int
	FaultErrno      syscall.Errno
	FaultIdx        int
	ExecFails       bool // the program file is not executable (ENOEXEC/EACCES from execve)
	Trace           []string
	HostEuid        int
	TracerPresent   bool // a tracer drives the child: self-stops and exec events really stop it
	LastStatfsFlags int64
	StatfsFlags     map[string]int64 // mount flags of the file system holding a path (symbolic, fixed per path)
	// id-map files written by the parent: path -> content
	ProcFiles map[string]string
	ProcOpen  map[int]string // fd -> path for /proc/<pid>/... files opened by writeFile
}

var K *Kernel

const AllCaps = uint64(1)<<41 - 1

func NewKernel() *Kernel {
	k := &Kernel{Procs: map[int]*Proc{}, NextPid: 5000, NextFile: 100, ProcFiles: map[string]string{}, ProcOpen: map[int]string{}}
	host := &Proc{Pid: 1000, Fds: map[int]*FDEnt{}, CapEff: AllCaps, CapPrm: AllCaps, Sid: 900, Pgid: 900, Cwd: "/host/cwd",
		Rlim: map[int]syscall.Rlimit{}}
	k.Procs[1000] = host
	return k
}

func (k *Kernel) Host() *Proc { return k.Procs[1000] }

func (k *Kernel) Cur() *Proc {
	pid := sym.Pid()
	if pid == 0 {
		return k.Procs[1000]
	}
	return k.Procs[pid]
}

func (k *Kernel) NewFile(name string) *FileObj {
	k.NextFile++
	return &FileObj{ID: k.NextFile, Name: name}
}

// OpenAt installs file f at descriptor fd of process p.
func (p *Proc) OpenAt(fd int, f *FileObj, cloexec bool) {
	p.Fds[fd] = &FDEnt{File: f, Cloexec: cloexec}
	if f.S != nil {
		f.S.Refs[f.End]++
	}
}

func (p *Proc) closeFd(fd int) bool {
	e, ok := p.Fds[fd]
	if !ok || e == nil {
		return false
	}
	delete(p.Fds, fd)
	if e.File.S != nil {
		e.File.S.Refs[e.File.End]--
	}
	return true
}

func (p *Proc) log(s string) { p.Calls = append(p.Calls, s) }

// Called reports whether the process issued the named call.
func (p *Proc) Called(name string) bool {
	for _, c := range p.Calls {
		if c == name {
			return true
		}
	}
	return false
}

// IndexOf returns the position of the first call with that name, or -1.
func (p *Proc) IndexOf(name string) int {
	for i, c := range p.Calls {
		if c == name {
			return i
		}
	}
	return -1
}

func (p *Proc) LastIndexOf(name string) int {
	r := -1
	for i, c := range p.Calls {
		if c == name {
			r = i
		}
	}
	return r
}

// K-FAULT: a call site may fail with an arbitrary errno when the harness enabled faults.
func (k *Kernel) fault(site string) (syscall.Errno, bool) {
	if k.FaultsLeft <= 0 || (k.FaultOnly != "" && !strings.Contains(","+k.FaultOnly+",", ","+site+",")) {
		return 0, false
	}
	if k.FaultSeen == nil {
		k.FaultSeen = map[string]int{}
	}
	k.FaultSeen[site]++
	if sym.Bool("fault_" + site) {
		k.FaultsLeft--
		e := syscall.Errno(sym.Uintptr("errno"))
		sym.Assume(e >= 1)
		sym.Assume(e <= 133)
		sym.Assume(e != syscall.EINTR)
		sym.Assume(e != syscall.ETXTBSY)
		sym.Assume(e != syscall.EEXIST)
		sym.Assume(e != syscall.ESRCH)
		k.FaultAt = site
		k.FaultIdx = k.FaultSeen[site]
		k.FaultProc = k.Cur().Pid
		k.FaultErrno = e
		return e, true
	}
	return 0, false
}

const errRet = ^uintptr(0)

// ---------------------------------------------------------------- syscall dispatch

func RawSyscall(trap, a1, a2, a3 uintptr) (r1, r2 uintptr, err syscall.Errno) {
	return K.syscall(trap, a1, a2, a3, 0, 0, 0)
}

func RawSyscall6(trap, a1, a2, a3, a4, a5, a6 uintptr) (r1, r2 uintptr, err syscall.Errno) {
	return K.syscall(trap, a1, a2, a3, a4, a5, a6)
}

func (k *Kernel) syscall(trap, a1, a2, a3, a4, a5, a6 uintptr) (r1, r2 uintptr, err syscall.Errno) {
	sym.Yield()
	p := k.Cur()
	if p.SyncReadBlocked {
		p.SyncReadBlocked = false
	}
	privileged := func(what string) {
		if len(p.Filters) > 0 && p.PrivAfterFilter == "" {
			p.PrivAfterFilter = what
		}
	}
	switch trap {
	case syscall.SYS_CLOSE:
		p.log("close")
		if e, f := k.fault("close"); f {
			return errRet, 0, e
		}
		if !p.closeFd(int(a1)) {
			return errRet, 0, syscall.EBADF
		}
		return 0, 0, 0

	case syscall.SYS_READ:
		return k.sysRead(p, int(a1), a2, int(a3))

	case syscall.SYS_WRITE:
		return k.sysWrite(p, int(a1), a2, int(a3))

	case syscall.SYS_GETPID:
		p.log("getpid")
		return uintptr(p.Pid), 0, 0

	case syscall.SYS_PRCTL:
		switch a1 {
		case syscall.PR_SET_SECUREBITS:
			p.log("prctl(securebits)")
			privileged("prctl(securebits)")
			if e, f := k.fault("securebits"); f {
				return errRet, 0, e
			}
			// K-CRED: needs CAP_SETPCAP in the effective set
			if p.CapEff&(1<<8) == 0 {
				return errRet, 0, syscall.EPERM
			}
			// locked bits cannot be changed
			p.Securebits = a2
			return 0, 0, 0
		case unix.PR_SET_NO_NEW_PRIVS:
			p.log("prctl(nnp)")
			if e, f := k.fault("nnp"); f {
				return errRet, 0, e
			}
			if a2 != 1 {
				return errRet, 0, syscall.EINVAL
			}
			p.NNP = true
			return 0, 0, 0
		}
		return errRet, 0, syscall.EINVAL

	case unix.SYS_SETGROUPS:
		p.log("setgroups")
		privileged("setgroups")
		if e, f := k.fault("setgroups"); f {
			return errRet, 0, e
		}
		if p.CapEff&(1<<6) == 0 {
			return errRet, 0, syscall.EPERM
		}
		n := int(a1)
		p.Groups = nil
		if n > 0 {
			p.Groups = append(p.Groups, sym.U32sAt(a2, n)...)
		}
		p.SetgroupsCalled = true
		return 0, 0, 0

	case unix.SYS_SETGID:
		p.log("setgid")
		privileged("setgid")
		if e, f := k.fault("setgid"); f {
			return errRet, 0, e
		}
		if p.CapEff&(1<<6) == 0 && uint32(a1) != p.Gid {
			return errRet, 0, syscall.EPERM
		}
		p.Gid = uint32(a1)
		return 0, 0, 0

	case unix.SYS_SETUID:
		p.log("setuid")
		privileged("setuid")
		if e, f := k.fault("setuid"); f {
			return errRet, 0, e
		}
		if p.CapEff&(1<<7) == 0 && uint32(a1) != p.Uid {
			return errRet, 0, syscall.EPERM
		}
		old := p.Uid
		p.Uid = uint32(a1)
		// K-CRED: uid fix-up clears capabilities when leaving uid 0 unless NO_SETUID_FIXUP
		if p.Securebits&(1<<2) == 0 && old == 0 && p.Uid != 0 {
			p.CapEff, p.CapPrm, p.CapAmb = 0, 0, 0
		}
		return 0, 0, 0

	case syscall.SYS_DUP3:
		p.log("dup3")
		if e, f := k.fault("dup3"); f {
			return errRet, 0, e
		}
		oldfd, newfd := int(a1), int(a2)
		src, ok := p.Fds[oldfd]
		if !ok || src == nil {
			return errRet, 0, syscall.EBADF
		}
		if oldfd == newfd {
			return errRet, 0, syscall.EINVAL
		}
		p.closeFd(newfd)
		p.OpenAt(newfd, src.File, a3&syscall.O_CLOEXEC != 0)
		return uintptr(newfd), 0, 0

	case syscall.SYS_FCNTL:
		p.log("fcntl")
		if e, f := k.fault("fcntl"); f {
			return errRet, 0, e
		}
		ent, ok := p.Fds[int(a1)]
		if !ok || ent == nil {
			return errRet, 0, syscall.EBADF
		}
		if a2 == syscall.F_SETFD {
			ent.Cloexec = a3&syscall.FD_CLOEXEC != 0
			return 0, 0, 0
		}
		return errRet, 0, syscall.EINVAL

	case syscall.SYS_SETSID:
		p.log("setsid")
		if e, f := k.fault("setsid"); f {
			return errRet, 0, e
		}
		if p.Pgid == p.Pid {
			return errRet, 0, syscall.EPERM
		}
		p.Sid, p.Pgid = p.Pid, p.Pid
		sym.Notef("pid %d: setsid (own process group from now on)", p.Pid)
		return uintptr(p.Pid), 0, 0

	case syscall.SYS_IOCTL:
		p.log("ioctl")
		if e, f := k.fault("ioctl"); f {
			return errRet, 0, e
		}
		if a2 == syscall.TIOCSCTTY {
			p.CTTY = true
			return 0, 0, 0
		}
		return errRet, 0, syscall.ENOTTY

	case syscall.SYS_MOUNT:
		return k.sysMount(p, a1, a2, a3, a4, a5)

	case syscall.SYS_CHDIR:
		p.log("chdir")
		if e, f := k.fault("chdir"); f {
			return errRet, 0, e
		}
		p.Cwd = sym.CString(a1)
		return 0, 0, 0

	case syscall.SYS_MKDIRAT:
		p.log("mkdirat")
		if e, f := k.fault("mkdirat"); f {
			return errRet, 0, e
		}
		p.Mkdirs = append(p.Mkdirs, sym.CString(a2))
		return 0, 0, 0

	case syscall.SYS_MKNODAT:
		p.log("mknodat")
		if e, f := k.fault("mknodat"); f {
			return errRet, 0, e
		}
		p.Mknods = append(p.Mknods, sym.CString(a2))
		return 0, 0, 0

	case syscall.SYS_STATFS:
		p.log("statfs")
		if e, f := k.fault("statfs"); f {
			return errRet, 0, e
		}
		st := (*syscall.Statfs_t)(sym.PtrOf(a2))
		src := sym.CString(a1)
		if k.StatfsFlags == nil {
			k.StatfsFlags = map[string]int64{}
		}
		if _, ok := k.StatfsFlags[src]; !ok {
			k.StatfsFlags[src] = int64(sym.U64("statfs_flags"))
		}
		st.Flags = k.StatfsFlags[src]
		k.LastStatfsFlags = st.Flags
		return 0, 0, 0

	case syscall.SYS_PIVOT_ROOT:
		p.log("pivot_root")
		privileged("pivot_root")
		if e, f := k.fault("pivot_root"); f {
			return errRet, 0, e
		}
		p.Pivoted = true
		return 0, 0, 0

	case syscall.SYS_UMOUNT2:
		p.log("umount2")
		privileged("umount2")
		if e, f := k.fault("umount2"); f {
			return errRet, 0, e
		}
		if sym.CString(a1) == "old_root" && a2&syscall.MNT_DETACH != 0 {
			p.OldRootDetached = true
		}
		return 0, 0, 0

	case syscall.SYS_UNLINKAT:
		p.log("unlinkat")
		if e, f := k.fault("unlinkat"); f {
			return errRet, 0, e
		}
		if sym.CString(a2) == "old_root" && a3&unix.AT_REMOVEDIR != 0 {
			p.OldRootRemoved = true
		}
		return 0, 0, 0

	case syscall.SYS_SETHOSTNAME:
		p.log("sethostname")
		privileged("sethostname")
		p.Host = string(sym.BytesAt(a1, int(a2)))
		return 0, 0, 0

	case syscall.SYS_SETDOMAINNAME:
		p.log("setdomainname")
		privileged("setdomainname")
		p.Domain = string(sym.BytesAt(a1, int(a2)))
		return 0, 0, 0

	case syscall.SYS_PRLIMIT64:
		p.log("prlimit64")
		if e, f := k.fault("prlimit64"); f {
			return errRet, 0, e
		}
		if a1 != 0 {
			return errRet, 0, syscall.ESRCH
		}
		rl := (*syscall.Rlimit)(sym.PtrOf(a3))
		if rl.Cur > rl.Max {
			return errRet, 0, syscall.EINVAL
		}
		p.Rlim[int(a2)] = *rl
		return 0, 0, 0

	case syscall.SYS_CAPSET:
		p.log("capset")
		if e, f := k.fault("capset"); f {
			return errRet, 0, e
		}
		d := (*unix.CapUserData)(sym.PtrOf(a2))
		// K-CRED: new permitted must be a subset of old permitted
		p.CapEff, p.CapPrm, p.CapInh = uint64(d.Effective), uint64(d.Permitted), uint64(d.Inheritable)
		p.CapAmb &= p.CapPrm & p.CapInh
		return 0, 0, 0

	case syscall.SYS_UNSHARE:
		p.log("unshare")
		privileged("unshare")
		if a1&unix.CLONE_NEWCGROUP != 0 {
			if p.CapEff&(1<<21) == 0 {
				return errRet, 0, syscall.EPERM
			}
			p.UnsharedCgroup = true
		}
		return 0, 0, 0

	case syscall.SYS_PTRACE:
		p.log("ptrace(traceme)")
		if e, f := k.fault("ptraceme"); f {
			return errRet, 0, e
		}
		if a1 == syscall.PTRACE_TRACEME {
			p.Traceme = true
			return 0, 0, 0
		}
		return errRet, 0, syscall.EINVAL

	case syscall.SYS_KILL:
		p.log("kill")
		if e, f := k.fault("kill"); f {
			return errRet, 0, e
		}
		if int(a1) == p.Pid && syscall.Signal(a2) == syscall.SIGSTOP {
			p.SelfStopped = true
			p.log("stop-self")
			if k.TracerPresent && p.Traceme {
				k.ptraceStop(p, uint32(syscall.SIGSTOP)<<8|0x7f)
			}
			return 0, 0, 0
		}
		return errRet, 0, syscall.EPERM

	case unix.SYS_SECCOMP:
		p.log("seccomp")
		if e, f := k.fault("seccomp"); f {
			return errRet, 0, e
		}
		// K-CRED: needs no_new_privs or CAP_SYS_ADMIN
		if !p.NNP && p.CapEff&(1<<21) == 0 {
			return errRet, 0, syscall.EACCES
		}
		if a1 != 1 {
			return errRet, 0, syscall.EINVAL
		}
		p.Filters = append(p.Filters, sym.PtrOf(a3))
		p.FilterFlags = append(p.FilterFlags, a2)
		return 0, 0, 0

	case unix.SYS_NANOSLEEP:
		return 0, 0, 0

	case unix.SYS_EXECVE:
		p.log("execve")
		return k.sysExec(p, sym.CString(a1), -1, false)

	case unix.SYS_EXECVEAT:
		p.log("execveat")
		return k.sysExec(p, sym.CString(a2), int(a1), a5&unix.AT_EMPTY_PATH != 0)

	case syscall.SYS_EXIT:
		p.log("exit")
		k.exit(p, int(a1))
		sym.ExitThread(int(a1))
		return 0, 0, 0
	}
	sym.Assert(false, "kernel model: unmodelled syscall")
	return errRet, 0, syscall.ENOSYS
}

func (k *Kernel) exit(p *Proc, code int) {
	p.ExitCode = code
	p.State = StZombie
	p.Released = true
	for fd := range p.Fds {
		p.closeFd(fd)
	}
}

// K-PROC/K-FD/K-CRED: execve keeps the process, closes close-on-exec descriptors and
// recomputes capabilities (root regains them unless SECBIT_NOROOT).
func (k *Kernel) sysExec(p *Proc, path string, fd int, emptyPath bool) (uintptr, uintptr, syscall.Errno) {
	if e, f := k.fault("execve"); f {
		return errRet, 0, e
	}
	if k.ExecFails {
		return errRet, 0, syscall.ENOEXEC
	}
	if fd >= 0 {
		ent, ok := p.Fds[fd]
		if !ok || ent == nil {
			return errRet, 0, syscall.EBADF
		}
		p.ExecFile = ent.File
	}
	p.Execed = true
	p.Released = true
	if k.TracerPresent && p.Traceme {
		// PTRACE_EVENT_EXEC stop (the tracer set PTRACE_O_TRACEEXEC)
		p.StopStatus, p.Stopped, p.StopReported = uint32(4)<<16|uint32(5)<<8|0x7f, true, false
	}
	p.ExecPath, p.ExecFd, p.ExecAtEmptyPath = path, fd, emptyPath
	p.ExecFds = map[int]*FDEnt{}
	for n, e := range p.Fds {
		if e == nil {
			continue
		}
		if e.Cloexec {
			p.closeFd(n)
			continue
		}
		p.ExecFds[n] = e
	}
	if p.Uid == 0 && p.Securebits&1 == 0 {
		p.ExecCapPrm, p.ExecCapEff = AllCaps, AllCaps
	} else {
		p.ExecCapPrm = p.CapAmb
		p.ExecCapEff = p.CapAmb
	}
	sym.ExitThread(0) // the launcher code ends here; the program is abstract
	return 0, 0, 0
}

// ptraceStop parks the calling process in a ptrace stop until the tracer resumes it (or it is killed).
func (k *Kernel) ptraceStop(p *Proc, status uint32) {
	p.StopStatus, p.Stopped, p.StopReported = status, true, false
	c := p.Continued
	sym.WaitUntil(func() bool { return p.Continued > c || p.State != StRunning })
	if p.State != StRunning {
		sym.ExitThread(137)
	}
}

// KillGroup implements kill(-pgid, sig) / kill(pid, sig) for the tracer side.
func (k *Kernel) KillGroup(pid int, sig syscall.Signal) error {
	sym.Yield()
	hit := false
	for _, t := range k.Procs {
		if t.State != StRunning {
			continue
		}
		if (pid < 0 && t.Pgid == -pid) || (pid > 0 && t.Pid == pid) {
			hit = true
			if sig == syscall.SIGKILL {
				t.KilledBy = 9
				k.exit(t, 0)
				t.Stopped = false
				sym.KillPid(t.Pid)
			}
		}
	}
	if !hit {
		sym.Notef("kill(%d, %d) = ESRCH: no such process (group)", pid, int(sig))
		return syscall.ESRCH
	}
	sym.Notef("kill(%d, %d) delivered", pid, int(sig))
	return nil
}

// K-SOCK (stream): read blocks until data or until every writer end is closed (EOF).
func (k *Kernel) sysRead(p *Proc, fd int, buf uintptr, n int) (uintptr, uintptr, syscall.Errno) {
	p.log("read")
	if p != k.Host() {
		if e, f := k.fault("read"); f {
			return errRet, 0, e
		}
	}
	ent, ok := p.Fds[fd]
	if !ok || ent == nil || ent.File.S == nil {
		return errRet, 0, syscall.EBADF
	}
	s, end := ent.File.S, ent.File.End
	p.SyncReadBlocked = true
	sym.WaitUntil(func() bool { return len(s.Q[end]) > 0 || s.Refs[1-end] == 0 })
	if len(s.Q[end]) == 0 {
		return 0, 0, 0 // EOF
	}
	m := s.Q[end][0]
	s.Q[end] = s.Q[end][1:]
	got := m.N
	if got > n {
		got = n
	}
	if m.Snap != nil {
		sym.Restore(buf, m.Snap)
	}
	return uintptr(got), 0, 0
}

func (k *Kernel) sysWrite(p *Proc, fd int, buf uintptr, n int) (uintptr, uintptr, syscall.Errno) {
	p.log("write")
	if p != k.Host() {
		if e, f := k.fault("write"); f {
			return errRet, 0, e
		}
	}
	ent, ok := p.Fds[fd]
	if !ok || ent == nil {
		return errRet, 0, syscall.EBADF
	}
	if ent.File.S == nil {
		// /proc/<pid>/{uid_map,gid_map,setgroups}
		if path, ok := k.ProcOpen[fd]; ok {
			k.ProcFiles[path] = string(sym.BytesAt(buf, n))
		}
		return uintptr(n), 0, 0
	}
	s, end := ent.File.S, ent.File.End
	if s.Refs[1-end] == 0 {
		return errRet, 0, syscall.EPIPE
	}
	s.Q[1-end] = append(s.Q[1-end], Msg{Snap: sym.Snapshot(buf), N: n})
	return uintptr(n), 0, 0
}

// K-MNT (recorded, judged by the C05 oracle)
func (k *Kernel) sysMount(p *Proc, src, tgt, fst, flags, data uintptr) (uintptr, uintptr, syscall.Errno) {
	p.log("mount")
	if len(p.Filters) > 0 && p.PrivAfterFilter == "" {
		p.PrivAfterFilter = "mount"
	}
	if e, f := k.fault("mount"); f {
		return errRet, 0, e
	}
	if p.CapEff&(1<<21) == 0 {
		return errRet, 0, syscall.EPERM
	}
	m := Mount{Source: sym.CString(src), Target: sym.CString(tgt), FsType: sym.CString(fst), Flags: flags, Data: sym.CString(data)}
	if flags&syscall.MS_REMOUNT != 0 {
		m.Remount = true
	}
	if m.Target == "/" && flags&(syscall.MS_REC|syscall.MS_PRIVATE) == syscall.MS_REC|syscall.MS_PRIVATE && !m.Remount {
		p.RootPrivate = true
	}
	if m.Target == "/" && m.Remount && flags&syscall.MS_RDONLY != 0 {
		p.RootReadonly = true
	}
	p.Mounts = append(p.Mounts, m)
	return 0, 0, 0
}

// ---------------------------------------------------------------- clone (called by the engine)

// Clone is invoked by the engine's RawVforkSyscall intrinsic: it creates the child process
// entry and returns (pid, errno, vforkSharesMemory).  The engine then duplicates the calling
// frame: the child continues with r1 = 0.
func Clone(trap, a1, a2, a3 uintptr) (uintptr, syscall.Errno, bool, bool) {
	k := K
	parent := k.Cur()
	var flags uintptr
	cg := 0
	if trap == unix.SYS_CLONE3 {
		type cloneArgs struct {
			flags, pidFD, childTID, parentTID, exitSignal, stack, stackSize, tls, setTID, setTIDSize, cgroup uint64
		}
		ca := (*cloneArgs)(sym.PtrOf(a1))
		flags = uintptr(ca.flags)
		if flags&unix.CLONE_INTO_CGROUP != 0 {
			cg = int(ca.cgroup)
			if ent, ok := parent.Fds[cg]; !ok || ent == nil {
				return errRet, syscall.EBADF, false, false
			}
		}
		parent.log("clone3")
	} else {
		flags = a1
		parent.log("clone")
	}
	if e, f := k.fault("clone"); f {
		return errRet, e, false, false
	}
	k.NextPid++
	c := &Proc{Pid: k.NextPid, PPid: parent.Pid, Fds: map[int]*FDEnt{}, Uid: parent.Uid, Gid: parent.Gid,
		CapEff: parent.CapEff, CapPrm: parent.CapPrm, CapInh: parent.CapInh, Securebits: parent.Securebits,
		Sid: parent.Sid, Pgid: parent.Pgid, Cwd: parent.Cwd, Rlim: map[int]syscall.Rlimit{}, CloneFlags: flags, IntoCgroup: cg}
	c.Groups = append(c.Groups, parent.Groups...)
	for r, v := range parent.Rlim {
		c.Rlim[r] = v
	}
	for n, e := range parent.Fds {
		if e != nil {
			c.OpenAt(n, e.File, e.Cloexec)
		}
	}
	c.NS = flags & (unix.CLONE_NEWIPC | unix.CLONE_NEWNET | unix.CLONE_NEWNS | unix.CLONE_NEWPID | unix.CLONE_NEWUSER | unix.CLONE_NEWUTS | unix.CLONE_NEWCGROUP)
	if flags&unix.CLONE_NEWUSER != 0 {
		// K-CRED: full capabilities inside a new user namespace
		c.CapEff, c.CapPrm = AllCaps, AllCaps
	}
	c.VM = flags&syscall.CLONE_VM != 0
	c.Vfork = flags&syscall.CLONE_VFORK != 0
	k.Procs[c.Pid] = c
	return uintptr(c.Pid), 0, c.VM, c.Vfork
}

// AckPending reports whether data is queued for any stream end that p holds open
// (i.e. an acknowledgement has already been sent to a child waiting in its sync read).
func (k *Kernel) AckPending(p *Proc) bool {
	for _, e := range p.Fds {
		if e != nil && e.File.S != nil && len(e.File.S.Q[e.File.End]) > 0 {
			return true
		}
	}
	return false
}

// VforkReleased: the vfork parent may run again.
func VforkReleased(pid int) bool {
	p := K.Procs[pid]
	return p == nil || p.Released
}

// ---------------------------------------------------------------- parent-side wrappers

func Socketpair(domain, typ, proto int) (fd [2]int, err error) {
	k := K
	p := k.Cur()
	sym.Yield()
	if e, f := k.fault("socketpair"); f {
		return fd, e
	}
	s := &Stream{}
	a := sym.Int("sockfd")
	b := sym.Int("sockfd")
	sym.Assume(a >= 0 && a < 64 && b >= 0 && b < 64 && a != b)
	// K-FD: new descriptors are numbers that are not open
	for n, e := range p.Fds {
		if e != nil {
			sym.Assume(a != n && b != n)
		}
	}
	f0 := &FileObj{ID: k.NextFile + 1, Name: "sync0", S: s, End: 0}
	f1 := &FileObj{ID: k.NextFile + 2, Name: "sync1", S: s, End: 1}
	k.NextFile += 2
	cx := typ&syscall.SOCK_CLOEXEC != 0
	p.OpenAt(a, f0, cx)
	p.OpenAt(b, f1, cx)
	p.log("socketpair")
	return [2]int{a, b}, nil
}

func Close(fd int) error {
	p := K.Cur()
	sym.Yield()
	p.log("close")
	delete(K.ProcOpen, fd)
	if !p.closeFd(fd) {
		return syscall.EBADF
	}
	return nil
}

func Kill(pid int, sig syscall.Signal) error {
	k := K
	sym.Yield()
	k.Cur().log("kill")
	t := k.Procs[pid]
	if t == nil || t.State == StReaped {
		return syscall.ESRCH
	}
	if sig == syscall.SIGKILL && t.State == StRunning {
		t.KilledBy = 9
		k.exit(t, 0)
		t.State = StZombie
		sym.KillPid(pid)
	}
	return nil
}

func Wait4(pid int, wstatus *syscall.WaitStatus, options int, rusage *syscall.Rusage) (int, error) {
	k := K
	sym.Yield()
	k.Cur().log("wait4")
	t := k.Procs[pid]
	if t == nil || t.State == StReaped || t.PPid != k.Cur().Pid {
		return -1, syscall.ECHILD
	}
	sym.WaitUntil(func() bool { return t.State == StZombie })
	t.State = StReaped
	if wstatus != nil {
		if t.KilledBy != 0 {
			*wstatus = syscall.WaitStatus(t.KilledBy)
		} else {
			*wstatus = syscall.WaitStatus(t.ExitCode << 8)
		}
	}
	return pid, nil
}

func Open(path string, mode int, perm uint32) (int, error) {
	k := K
	p := k.Cur()
	sym.Yield()
	if e, f := k.fault("open_idmap"); f {
		return -1, e
	}
	fd := sym.Int("openfd")
	sym.Assume(fd >= 0 && fd < 64)
	for n, e := range p.Fds {
		if e != nil {
			sym.Assume(fd != n)
		}
	}
	p.OpenAt(fd, k.NewFile(path), mode&syscall.O_CLOEXEC != 0)
	k.ProcOpen[fd] = path
	return fd, nil
}

func Write(fd int, b []byte) (int, error) {
	k := K
	sym.Yield()
	if e, f := k.fault("write_idmap"); f {
		return -1, e
	}
	if path, ok := k.ProcOpen[fd]; ok {
		k.ProcFiles[path] = string(b)
	}
	return len(b), nil
}

// Syscall (non-raw) is used by the parent for read(2) on the sync socket.
func Syscall(trap, a1, a2, a3 uintptr) (r1, r2 uintptr, err syscall.Errno) {
	return K.syscall(trap, a1, a2, a3, 0, 0, 0)
}

// Install replaces the system-call layer by the model.
func Install(k *Kernel) {
	K = k
	sym.Intercept("syscall.RawSyscall", RawSyscall)
	sym.Intercept("syscall.RawSyscall6", RawSyscall6)
	sym.Intercept("syscall.Syscall", Syscall)
	sym.Intercept("syscall.Socketpair", Socketpair)
	sym.Intercept("golang.org/x/sys/unix.Close", Close)
	sym.Intercept("syscall.Kill", Kill)
	sym.Intercept("syscall.Wait4", Wait4)
	sym.Intercept("golang.org/x/sys/unix.Open", Open)
	sym.Intercept("golang.org/x/sys/unix.Write", Write)
	sym.Intercept("golang.org/x/sys/unix.Geteuid", func() int { return k.HostEuid })
	sym.Intercept("golang.org/x/sys/unix.Getegid", func() int { return k.HostEuid })
}
