// Package kern holds the environment models that symgo interprets together with the
// code under test: context/time stand-ins and the kernel contract model.
package kern

import (
	"context"
	"time"

	"github.com/criyle/go-sandbox/zzverif/sym"
)

// ---- context model: cancellation propagates synchronously parent -> children ----

type mctx struct {
	parent   context.Context
	done     chan struct{}
	err      error
	children []*mctx
	timed    bool
}

func (c *mctx) Deadline() (time.Time, bool) { return time.Time{}, false }
func (c *mctx) Done() <-chan struct{}       { return c.done }
func (c *mctx) Err() error                  { return c.err }
func (c *mctx) Value(key any) any {
	if c.parent != nil {
		return c.parent.Value(key)
	}
	return nil
}

func (c *mctx) cancel(err error) {
	if c.err != nil {
		return
	}
	c.err = err
	close(c.done)
	for _, ch := range c.children {
		ch.cancel(err)
	}
}

// Cancelled reports whether the modelled context has been cancelled.
func Cancelled(c context.Context) bool {
	if m, ok := c.(*mctx); ok {
		return m.err != nil
	}
	return false
}

func Background() context.Context {
	return &mctx{done: make(chan struct{})}
}

func WithCancel(parent context.Context) (context.Context, context.CancelFunc) {
	c := &mctx{parent: parent, done: make(chan struct{})}
	if p, ok := parent.(*mctx); ok {
		if p.err != nil {
			c.cancel(p.err)
		} else {
			p.children = append(p.children, c)
		}
	} else if parent != nil && parent.Done() != nil {
		go func() {
			select {
			case <-parent.Done():
				c.cancel(parent.Err())
			case <-c.done:
			}
		}()
	}
	return c, func() { c.cancel(context.Canceled) }
}

// WithTimeout: the timer is not modelled as firing by itself; harnesses cancel explicitly.
func WithTimeout(parent context.Context, d time.Duration) (context.Context, context.CancelFunc) {
	return WithCancel(parent)
}

func WithDeadline(parent context.Context, t time.Time) (context.Context, context.CancelFunc) {
	return WithCancel(parent)
}

// InstallContext replaces the context constructors by the model.
func InstallContext() {
	sym.Intercept("context.WithCancel", WithCancel)
	sym.Intercept("context.WithTimeout", WithTimeout)
	sym.Intercept("context.WithDeadline", WithDeadline)
	sym.Intercept("context.Background", Background)
	sym.Intercept("context.TODO", Background)
}
