package config

import (
	"github.com/criyle/go-sandbox/zzverif/sym"
)

// VerifC01_CleanTrace: cleanTrace makes allow/trace disjoint with trace precedence and
// loses no name: lists of <=3 allow and <=3 trace names, every name a 2-byte symbolic
// string (so any equalities among them, repeats included, are solver-chosen), probed with
// an arbitrary symbolic query name.
func VerifC01_CleanTrace() {
	pick := func(tag string) []string {
		n := sym.Choose(tag+"_n", 4)
		var r []string
		for k := 0; k < n; k++ {
			r = append(r, sym.Str(tag, 2))
		}
		return r
	}
	allow, trace := pick("allow"), pick("trace")
	ga, gt := cleanTrace(allow, trace)
	count := func(l []string, s string) int {
		n := 0
		for _, x := range l {
			if x == s {
				n++
			}
		}
		return n
	}
	q := sym.Str("q", 2)
	wantTrace := count(trace, q) > 0
	wantAllow := count(allow, q) > 0 && !wantTrace
	if wantTrace {
		sym.Reach("traced")
		if count(allow, q) > 0 {
			sym.Reach("overlap")
		}
	}
	sym.Assert((count(gt, q) > 0) == wantTrace, "trace list must keep exactly the traced names")
	sym.Assert((count(ga, q) > 0) == wantAllow, "allow list must keep exactly the allowed names that are not traced")
	sym.Assert(count(ga, q) <= 1 && count(gt, q) <= 1, "cleaned lists must not contain duplicates (the assembler rejects them)")
}
