package config

import (
	"github.com/criyle/go-sandbox/zzverif/sym"
)

// VerifC01_CleanTrace: cleanTrace makes allow/trace disjoint with trace precedence and
// loses no name: lists of <=3 allow and <=3 trace names, every name a 2-byte symbolic
// string (so any equalities among them, repeats included, are solver-chosen), probed with
// an arbitrary symbolic query name.
func VerifC01_CleanTrace() {
	pick := func(tag string) []string {
		n := sym.Choose(tag+"_n", 4)
		var r []string
		for k := 0; k < n; k++ {
			r = append(r, sym.Str(tag, 2))
		}
		return r
	}
	allow, trace := pick("allow"), pick("trace")
	ga, gt := cleanTrace(allow, trace)
	count := func(l []string, s string) int {
		n := 0
		for _, x := range l {
			if x == s {
				n++
			}
		}
		return n
	}
	q := sym.Str("q", 2)
	wantTrace := count(trace, q) > 0
	wantAllow := count(allow, q) > 0 && !wantTrace
	if wantTrace {
		sym.Reach("traced")
		if count(allow, q) > 0 {
			sym.Reach("overlap")
		}
	}
	sym.Assert((count(gt, q) > 0) == wantTrace, "trace list must keep exactly the traced names")
	sym.Assert((count(ga, q) > 0) == wantAllow, "allow list must keep exactly the allowed names that are not traced")
	sym.Assert(count(ga, q) <= 1 && count(gt, q) <= 1, "cleaned lists must not contain duplicates (the assembler rejects them)")
}

// VerifC01_GetConf: the lists runprog hands to the filter builder are disjoint with trace
// precedence for every program type and with/without -allow-proc (symbolic flag): anything
// that the configuration wants traced is in the trace list and not in the allow list.
func VerifC01_GetConf() {
	types := []string{""}
	for k := range runptraceConfig {
		types = append(types, k)
	}
	// deterministic order is not required: every type is explored
	pType := types[sym.Choose("ptype", len(types))]
	allowProc := sym.Bool("allow_proc")
	_, allow, trace, _ := GetConf(pType, "/w", []string{"/w/a.out"}, nil, nil, allowProc)
	wantTrace := append(append([]string{}, defaultSyscallTraces...), archSyscallTraces...)
	if c, ok := runptraceConfig[pType]; ok {
		wantTrace = append(wantTrace, c.Syscall.ExtraBan...)
	}
	inList := func(l []string, s string) bool {
		for _, x := range l {
			if x == s {
				return true
			}
		}
		return false
	}
	if allowProc {
		sym.Reach("allow-proc")
	}
	for _, s := range wantTrace {
		sym.Assert(inList(trace, s), "a syscall configured as traced is missing from the trace list")
		sym.Assert(!inList(allow, s), "a traced syscall is also allow-listed (allow would win in the filter): "+s)
	}
	seen := map[string]bool{}
	for _, s := range allow {
		sym.Assert(!seen[s], "duplicate name in the allow list (the assembler rejects it)")
		seen[s] = true
	}
}
