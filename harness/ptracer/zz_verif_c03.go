package ptracer

import (
	"context"
	"syscall"
	"unsafe"

	"golang.org/x/sys/unix"

	"github.com/criyle/go-sandbox/runner"
	"github.com/criyle/go-sandbox/zzverif/kern"
	"github.com/criyle/go-sandbox/zzverif/sym"
)

// ---- K-PTRACE: a small contract model of ptrace stops, wait4 and kill for one tracer ----

const (
	stopNone = iota
	stopSignal
	stopSeccomp
	stopExec
	stopFork
)

type kproc struct {
	pid        int
	exists     bool
	alive      bool
	stopped    bool
	stopKind   int
	stopSig    int
	optionsSet bool
	opts       int
	resumedSig int
	setRegs    bool
	setOrigRax uint64
	setRax     uint64
	verdict    TraceAction // verdict the handler gave for the current seccomp stop
	sawVerdict bool
	dying      bool
}

type kptrace struct {
	pgid        int
	procs       []*kproc
	events      int
	budget      int
	groupKilled bool
	execved     bool
	esrchAt     int // inject ESRCH at the n-th ptrace request (-1: never)
	requests    int
	killVerdict bool
	banSeen     bool
	allowSeen   bool
	injected    bool
	h           *verifHandler
	waits       int
	lastPid     int
	idleAfter   bool         // after the script the program just runs (no events) until it is killed
	script      []scriptEv   // when set, events follow this script instead of being chosen symbolically
	ru          *unix.Rusage // when set: the usage wait4 reports for the main process
	lastWs      uint32       // wait status of the last event reported
	lastMain    bool
}

type scriptEv struct {
	proc int    // index into procs
	ws   uint32 // wait status to report
}

const wantPtraceOpts = unix.PTRACE_O_TRACESECCOMP | unix.PTRACE_O_EXITKILL | unix.PTRACE_O_TRACEFORK |
	unix.PTRACE_O_TRACECLONE | unix.PTRACE_O_TRACEEXEC | unix.PTRACE_O_TRACEVFORK

func (k *kptrace) proc(pid int) *kproc {
	for _, p := range k.procs {
		if p.exists && p.pid == pid {
			return p
		}
	}
	return nil
}

// vanished: the tracee was SIGKILLed (OOM, cgroup kill, the canceller) while in its stop:
// the request fails with ESRCH and the death is reported by the next wait4.
func (k *kptrace) vanished(p *kproc) bool {
	k.requests++
	if k.esrchAt >= 0 && k.requests == k.esrchAt+1 {
		k.injected = true
		p.stopped = false
		p.dying = true
		return true
	}
	return false
}

func (k *kptrace) wait4(pid int, wstatus *unix.WaitStatus, options int, rusage *unix.Rusage) (int, error) {
	k.waits++
	sym.Assert(pid == k.pgid || pid == -k.pgid, "wait4 must name the run's own process or group (never -1)")
	// progress: waiting while a live tracee is still stopped would hang the run
	if !k.groupKilled {
		for _, p := range k.procs {
			if p.exists && p.alive && p.stopped {
				sym.Assert(false, "tracer waits again although a stopped tracee was neither resumed nor killed")
			}
		}
	}
	if rusage != nil {
		*rusage = unix.Rusage{}
		if k.ru != nil && (pid == k.pgid || pid == -k.pgid) {
			*rusage = *k.ru
		}
	}
	// collect zombies after a group kill
	if k.groupKilled {
		for _, p := range k.procs {
			if p.exists && p.alive && (pid == -k.pgid || pid == p.pid) {
				p.alive = false
				p.stopped = false
				*wstatus = unix.WaitStatus(9) // killed by SIGKILL
				return p.pid, nil
			}
		}
		return -1, syscall.ECHILD
	}
	for _, p := range k.procs {
		if p.exists && p.alive && p.dying && (pid == -k.pgid || pid == p.pid) {
			p.alive = false
			*wstatus = unix.WaitStatus(9)
			return p.pid, nil
		}
	}
	if k.idleAfter && len(k.script) == 0 && !k.groupKilled {
		// the program computes quietly: nothing to report until somebody kills the group
		sym.WaitUntil(func() bool { return k.groupKilled })
		return k.wait4(pid, wstatus, options, rusage)
	}
	// pick the process that reports next
	var cands []*kproc
	for _, p := range k.procs {
		if p.exists && p.alive && !p.stopped && (pid == -k.pgid || pid == p.pid) {
			cands = append(cands, p)
		}
	}
	if len(cands) == 0 {
		return -1, syscall.ECHILD
	}
	var p *kproc
	scripted := false
	var sws uint32
	if len(k.script) > 0 {
		ev := k.script[0]
		k.script = k.script[1:]
		p = k.procs[ev.proc]
		sym.Assume(p.exists && p.alive && !p.stopped)
		scripted, sws = true, ev.ws
	} else {
		p = cands[sym.Choose("who", len(cands))]
	}
	k.lastPid = p.pid
	k.events++
	main := p.pid == k.pgid
	if k.events > k.budget {
		// out of budget: the reporting process terminates normally
		p.alive = false
		*wstatus = unix.WaitStatus(0)
		return p.pid, nil
	}
	if !p.optionsSet {
		// a new tracee first reports its initial SIGSTOP
		p.stopped, p.stopKind, p.stopSig = true, stopSignal, int(unix.SIGSTOP)
		*wstatus = unix.WaitStatus(uint32(unix.SIGSTOP)<<8 | 0x7f)
		return p.pid, nil
	}
	ws := sym.U32("wstatus")
	if scripted {
		ws = sws
	}
	switch refKind(ws) {
	case refExited, refSignaled:
		sym.Assume(ws&0x80 == 0 && ws>>16 == 0) // no core flag games, no event bits
		p.alive = false
	case refStopped:
		sig := (ws >> 8) & 0xff
		ev := ws >> 16
		sym.Assume(sig >= 1 && sig <= 64)
		p.stopped = true
		p.stopSig = int(sig)
		if sig == 5 { // SIGTRAP: ptrace event stops
			sym.Assume(ev == unix.PTRACE_EVENT_SECCOMP || ev == unix.PTRACE_EVENT_EXEC || ev == unix.PTRACE_EVENT_FORK ||
				ev == unix.PTRACE_EVENT_VFORK || ev == unix.PTRACE_EVENT_CLONE)
			switch ev {
			case unix.PTRACE_EVENT_SECCOMP:
				p.stopKind = stopSeccomp
				p.sawVerdict = false
			case unix.PTRACE_EVENT_EXEC:
				p.stopKind = stopExec
				if main {
					k.execved = true
				}
			default:
				p.stopKind = stopFork
				// the new child is attached automatically (TRACEFORK) and will report its own stop
				for _, c := range k.procs {
					if !c.exists {
						c.exists, c.alive = true, true
						break
					}
				}
			}
		} else {
			sym.Assume(ev == 0)
			p.stopKind = stopSignal
		}
	default:
		sym.Assume(false)
	}
	*wstatus = unix.WaitStatus(ws)
	k.lastWs, k.lastMain = ws, main
	return p.pid, nil
}

func (k *kptrace) setOptions(pid int, opts int) error {
	p := k.proc(pid)
	if p == nil || !p.alive || p.dying || !p.stopped || k.vanished(p) {
		return syscall.ESRCH
	}
	p.optionsSet = true
	p.opts = opts
	return nil
}

func (k *kptrace) cont(pid int, sig int) error {
	p := k.proc(pid)
	if p == nil || !p.alive || p.dying || !p.stopped || k.vanished(p) {
		return syscall.ESRCH
	}
	sym.Assert(p.optionsSet && p.opts&wantPtraceOpts == wantPtraceOpts,
		"a tracee must get TRACESECCOMP|EXITKILL|TRACEFORK|TRACECLONE|TRACEVFORK|TRACEEXEC before it is first resumed")
	switch p.stopKind {
	case stopSignal:
		sym.Assert(sig == p.stopSig, "a signal-delivery stop must be resumed with the same signal")
	case stopSeccomp:
		sym.Assert(sig == 0, "an event stop must be resumed without a signal")
		if k.execved && !p.sawVerdict && !k.injected {
			sym.Assert(false, "a trapped syscall is resumed although the handler was never consulted about it")
		}
		if k.execved && p.sawVerdict {
			switch p.verdict {
			case TraceBan:
				sym.Reach("ban-enforced")
				sym.Assert(p.setRegs && p.setOrigRax == ^uint64(0), "a banned syscall must be skipped (orig_rax = -1) before the tracee is resumed")
			case TraceKill:
				sym.Assert(false, "a killed syscall must never be resumed")
			default:
				sym.Reach("allow-resumed")
				sym.Assert(!p.setRegs, "an allowed syscall must run with unmodified registers")
			}
		}
	default:
		sym.Assert(sig == 0, "an event stop must be resumed without a signal")
	}
	p.stopped = false
	p.setRegs = false
	return nil
}

func (k *kptrace) getRegs(pid int, regs *syscall.PtraceRegs) error {
	p := k.proc(pid)
	if p == nil || !p.alive || p.dying || !p.stopped || k.vanished(p) {
		return syscall.ESRCH
	}
	regs.Orig_rax = sym.U64("orig_rax")
	regs.Rax = ^uint64(37)
	regs.Rdi = sym.U64("rdi")
	return nil
}

// ptraceReq: the raw ptrace(2) wrapper of the package (the register-set helpers above it are
// the real code): PTRACE_GETREGSET fills the register block the iovec points to.
func (k *kptrace) ptraceReq(request int, pid int, addr uintptr, data uintptr) error {
	switch request {
	case syscall.PTRACE_GETREGSET:
		iov := (*unix.Iovec)(sym.PtrOf(data))
		regs := (*syscall.PtraceRegs)(unsafe.Pointer(iov.Base))
		return k.getRegs(pid, regs)
	case syscall.PTRACE_SETREGSET:
		iov := (*unix.Iovec)(sym.PtrOf(data))
		regs := (*syscall.PtraceRegs)(unsafe.Pointer(iov.Base))
		return k.setRegsReq(pid, regs)
	}
	sym.Assert(false, "model: unexpected raw ptrace request")
	return syscall.EIO
}

func (k *kptrace) setRegsReq(pid int, regs *syscall.PtraceRegs) error {
	p := k.proc(pid)
	if p == nil || !p.alive || p.dying || !p.stopped || k.vanished(p) {
		return syscall.ESRCH
	}
	p.setRegs = true
	p.setOrigRax = regs.Orig_rax
	p.setRax = regs.Rax
	return nil
}

func (k *kptrace) kill(pid int, sig syscall.Signal) error {
	sym.Yield()
	if pid == -k.pgid && sig == syscall.SIGKILL {
		any := false
		for _, p := range k.procs {
			if p.exists && p.alive {
				any = true
			}
		}
		k.groupKilled = true
		if !any {
			return syscall.ESRCH
		}
		return nil
	}
	if pid == k.pgid && sig == syscall.SIGKILL {
		// kill of the run's own main process (it may not own a group yet while it launches)
		for _, p := range k.procs {
			if p.pid == pid && p.exists && p.alive {
				p.dying, p.stopped = true, false
				return nil
			}
		}
		return syscall.ESRCH
	}
	sym.Assert(false, "kill must target the run's own process or process group with SIGKILL")
	return nil
}

// traceHarness runs the real trace loop against K-PTRACE with an arbitrary verdict.
func traceHarness(budget int, nprocs int, esrch bool) { traceHarnessS(budget, nprocs, esrch, nil) }

func traceHarnessS(budget int, nprocs int, esrch bool, script []scriptEv) {
	kern.InstallContext()
	const pgid = 4242
	k := &kptrace{pgid: pgid, budget: budget, esrchAt: -1, script: script}
	for n := 0; n < nprocs; n++ {
		k.procs = append(k.procs, &kproc{pid: pgid + n})
	}
	k.procs[0].exists, k.procs[0].alive = true, true
	if esrch {
		k.esrchAt = sym.Choose("esrch_at", 6)
	}
	verdict := TraceAction(sym.Int("verdict"))
	h := &verifHandler{verdict: verdict}
	k.h = h
	sym.Intercept("golang.org/x/sys/unix.Wait4", k.wait4)
	sym.Intercept("golang.org/x/sys/unix.PtraceSetOptions", k.setOptions)
	sym.Intercept("golang.org/x/sys/unix.PtraceCont", k.cont)
	sym.Intercept("golang.org/x/sys/unix.Kill", k.kill)
	sym.Intercept("github.com/criyle/go-sandbox/ptracer.ptrace", k.ptraceReq)
	sym.Intercept("syscall.PtraceSetRegs", k.setRegsReq)
	// record the verdict on the stopped process when the handler is consulted
	hook := &hookHandler{inner: h, k: k}
	t := &Tracer{Handler: hook, Limit: runner.Limit{TimeLimit: 1 << 62, MemoryLimit: 1 << 62}}
	baseThreads := sym.ThreadsAlive()
	res := t.trace(context.Background(), pgid)
	// C12: the caller's context is never cancelled: nothing of the run may stay behind
	sym.WaitOthers()
	sym.Assert(sym.ThreadsAlive() == baseThreads, "a goroutine of the run is left behind while the caller's context lives on")

	sym.Assert(k.groupKilled, "the process group must be killed before trace returns")
	for _, p := range k.procs {
		sym.Assert(!p.exists || !p.alive, "every process of the run must have been reaped when trace returns")
	}
	if hook.killed {
		sym.Reach("kill-verdict")
		sym.Assert(res.Status == runner.StatusDisallowedSyscall, "a kill verdict must end the run as Disallowed Syscall")
	}
	if res.Status == runner.StatusRunnerError {
		sym.Reach("runner-error")
		sym.Assert(res.Error != "", "Runner Error needs an explanation")
		if !k.injected {
			// no runner-side fault was injected: only a launch failure (main process gone before exec) may be reported so
			sym.Assert(!k.execved, "Runner Error reported on the program's account")
		}
	}
	if k.injected {
		sym.Reach("vanished")
		sym.Assert(res.Status != runner.StatusRunnerError, "a tracee that vanished between its stop and a ptrace request is reported as Runner Error")
		sym.Assert(res.Status != runner.StatusDisallowedSyscall || hook.killed, "a tracee that vanished during a trap is reported as Disallowed Syscall")
	}
}

type hookHandler struct {
	inner  *verifHandler
	k      *kptrace
	killed bool
}

func (h *hookHandler) Debug(v ...interface{}) {}
func (h *hookHandler) Handle(c *Context) TraceAction {
	v := h.inner.Handle(c)
	sym.Assert(c.Pid == h.k.lastPid, "the trap context must designate the tracee that is stopped")
	if p := h.k.proc(h.k.lastPid); p != nil {
		p.verdict = v
		p.sawVerdict = true
		sym.Assert(p.stopped && p.stopKind == stopSeccomp, "handler consulted outside a seccomp stop")
	}
	sym.Assert(h.k.execved, "handler consulted before the program was exec'ed")
	if v != TraceAllow && v != TraceBan {
		// TraceKill and any other value must be fatal (fail closed)
		if v == TraceKill {
			h.killed = true
		}
	}
	return v
}

func VerifC03_Trace_Quick()    { traceHarness(4, 2, false) }
func VerifC03_Trace_Quick5()   { traceHarness(5, 2, false) }
func VerifC03_Trace_Thorough() { traceHarness(6, 3, false) }
func VerifC15_TraceESRCH()     { traceHarness(4, 2, true) }

const (
	wsTrapSeccomp = uint32(unix.PTRACE_EVENT_SECCOMP)<<16 | 5<<8 | 0x7f
	wsTrapExec    = uint32(unix.PTRACE_EVENT_EXEC)<<16 | 5<<8 | 0x7f
	wsTrapFork    = uint32(unix.PTRACE_EVENT_FORK)<<16 | 5<<8 | 0x7f
	wsTrapClone   = uint32(unix.PTRACE_EVENT_CLONE)<<16 | 5<<8 | 0x7f
)

// VerifC03_MultiProc: verdicts are enforced in every process and thread of the program:
// scripted tree main -> fork child -> clone grandchild, a seccomp trap in each of them with
// an arbitrary verdict (all three use the same handler).
func VerifC03_MultiProc() {
	traceHarnessS(13, 3, false, []scriptEv{
		{0, 0},             // initial SIGSTOP of main (generated by the model)
		{0, wsTrapExec},    // exec
		{0, wsTrapSeccomp}, // trap in main
		{0, wsTrapFork},    // fork
		{1, 0},             // child's initial stop
		{1, wsTrapSeccomp}, // trap in child
		{1, wsTrapExec},    // the child execs another program: later traps are still the program's
		{0, wsTrapSeccomp}, // trap in main after the child's exec
		{1, wsTrapSeccomp}, // trap in the child after its exec
		{1, wsTrapClone},   // clone
		{2, 0},             // thread's initial stop
		{2, wsTrapSeccomp}, // trap in the thread
		{0, wsTrapSeccomp}, // trap in main again
	})
}

// VerifC11_PtraceCancel: the context is cancelled before the trace loop starts or at any
// instant while the program runs quietly; the run must return as Time Limit Exceeded
// (killed by the canceller), never as Runner Error or Disallowed Syscall, and must not hang.
func VerifC11_PtraceCancel() {
	kern.InstallContext()
	const pgid = 4242
	k := &kptrace{pgid: pgid, budget: 100, esrchAt: -1, idleAfter: true, script: []scriptEv{{0, 0}, {0, wsTrapExec}}}
	k.procs = []*kproc{{pid: pgid, exists: true, alive: true}, {pid: pgid + 1}}
	h := &verifHandler{verdict: TraceAllow}
	sym.Intercept("golang.org/x/sys/unix.Wait4", k.wait4)
	sym.Intercept("golang.org/x/sys/unix.PtraceSetOptions", k.setOptions)
	sym.Intercept("golang.org/x/sys/unix.PtraceCont", k.cont)
	sym.Intercept("golang.org/x/sys/unix.Kill", k.kill)
	sym.Intercept("github.com/criyle/go-sandbox/ptracer.ptrace", k.ptraceReq)
	sym.Intercept("syscall.PtraceSetRegs", k.setRegsReq)
	t := &Tracer{Handler: &hookHandler{inner: h, k: k}, Limit: runner.Limit{TimeLimit: 1 << 62, MemoryLimit: 1 << 62}}
	ctx, cancel := kern.WithCancel(kern.Background())
	if sym.Bool("pre_cancelled") {
		cancel()
	} else {
		go func() {
			sym.Yield()
			cancel()
		}()
	}
	res := t.trace(ctx, pgid)
	cancel()
	sym.Reach("returned")
	sym.Assert(k.groupKilled, "the process group must have been killed")
	sym.Assert(res.Status == runner.StatusTimeLimitExceeded, "a cancelled run must be reported as Time Limit Exceeded")
}
