package ptracer

import (
	"fmt"

	"github.com/criyle/go-sandbox/zzverif/sym"
)

// SelfTestC15: hasNull / clen on concrete buffers.
func SelfTestC15() {
	out := ""
	for _, b := range [][]byte{{}, {0}, {1, 2, 0, 4}, {1, 2, 3}, {0, 0}} {
		out += fmt.Sprintf("%v:%d,", hasNull(b), clen(b))
	}
	sym.Output("strings", out)
	ws := ""
	for _, w := range []uint32{0, 0x100, 9, 0x137f, 0x7057f, 0x8b, 0xffff} {
		ws += fmt.Sprintf("%d%d%d,", refKind(w), refExitCode(w), refTermSig(w))
	}
	sym.Output("waitstatus", ws)
}
