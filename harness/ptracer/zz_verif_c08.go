package ptracer

import (
	"context"
	"time"

	"golang.org/x/sys/unix"

	"github.com/criyle/go-sandbox/runner"
	"github.com/criyle/go-sandbox/zzverif/kern"
	"github.com/criyle/go-sandbox/zzverif/sym"
)

// VerifC08_CheckUsage: usage above the runner's bounds yields TLE/MLE with the measurements.
func VerifC08_CheckUsage() {
	tl := sym.I64("time_limit")
	ml := sym.U64("mem_limit")
	t := &Tracer{Limit: runner.Limit{TimeLimit: time.Duration(tl), MemoryLimit: runner.Size(ml)}}
	sec, usec := sym.I64("ut_sec"), sym.I64("ut_usec")
	rss := sym.I64("maxrss")
	sym.Assume(sec >= 0 && sec < (1<<33) && usec >= 0 && usec < 1000000 && rss >= 0 && rss < (1<<53))
	var ru unix.Rusage
	ru.Utime = unix.Timeval{Sec: sec, Usec: usec}
	ru.Maxrss = rss
	ut, um, st := t.checkUsage(ru)
	ns := sec*1000000000 + usec*1000
	bytes := uint64(rss) << 10
	sym.Assert(int64(ut) == ns, "measured CPU time must be reported in ns")
	sym.Assert(uint64(um) == bytes, "measured memory must be reported in bytes")
	switch {
	case bytes > ml && ns > tl:
		sym.Reach("both")
		sym.Assert(st == runner.StatusMemoryLimitExceeded || st == runner.StatusTimeLimitExceeded, "usage above both bounds must be a limit verdict")
	case bytes > ml:
		sym.Reach("mle")
		sym.Assert(st == runner.StatusMemoryLimitExceeded, "memory above the bound must be MLE")
	case ns > tl:
		sym.Reach("tle")
		sym.Assert(st == runner.StatusTimeLimitExceeded, "time above the bound must be TLE")
	default:
		sym.Reach("within")
		sym.Assert(st == runner.StatusNormal, "usage within bounds must not be a limit verdict")
	}
}

// VerifC08_PtraceLimitSignals: a signal-delivery stop for SIGXCPU / SIGXFSZ of any traced
// process ends the run as TLE / OLE instead of being treated as a generic stop.
func VerifC08_PtraceLimitSignals() {
	h := &verifHandler{verdict: TraceAllow}
	t := &Tracer{Handler: h}
	const pgid = 4242
	ph := newPtraceHandle(t, pgid)
	ph.execved = true
	ph.traced[pgid] = true
	sig := sym.U32("stopsig")
	sym.Assume(sig >= 1 && sig <= 64 && sig != 5) // SIGTRAP carries ptrace events (C03)
	ws := sig<<8 | 0x7f
	contSig := -1
	sym.Intercept("golang.org/x/sys/unix.PtraceCont", func(pid int, s int) error { contSig = s; return nil })
	sym.Intercept("golang.org/x/sys/unix.PtraceSetOptions", func(pid int, opt int) error { return nil })
	status, _, _, finished := ph.handle(pgid, unix.WaitStatus(ws))
	switch sig {
	case 24:
		sym.Reach("xcpu")
		sym.Assert(status == runner.StatusTimeLimitExceeded, "SIGXCPU delivery must be Time Limit Exceeded")
	case 25:
		sym.Reach("xfsz")
		sym.Assert(status == runner.StatusOutputLimitExceeded, "SIGXFSZ delivery must be Output Limit Exceeded")
	default:
		sym.Reach("other")
		sym.Assert(status == runner.StatusNormal && !finished, "other signal stops do not end the run")
		sym.Assert(contSig == int(sig), "a signal-delivery stop must be resumed with the same signal")
	}
}

// VerifC08_TraceMeasurements: the real trace loop with symbolic bounds and a symbolic usage
// record reported by wait4 for the main process; the event that ends the run is an arbitrary
// wait status (exit, signal, signal-delivery stop incl. SIGXCPU / SIGXFSZ, ptrace event).
// Whenever the run ends on an event of the main process the Result carries the measured CPU
// time and peak memory; usage above a bound is TLE / MLE; a SIGXCPU / SIGXFSZ delivery is
// TLE / OLE.
func VerifC08_TraceMeasurements() {
	kern.InstallContext()
	const pgid = 4242
	k := &kptrace{pgid: pgid, budget: 3, esrchAt: -1}
	k.procs = append(k.procs, &kproc{pid: pgid, exists: true, alive: true})
	h := &verifHandler{verdict: TraceAllow}
	k.h = h
	sec, usec, rss := sym.I64("ut_sec"), sym.I64("ut_usec"), sym.I64("maxrss")
	sym.Assume(sec >= 0 && sec < (1<<33) && usec >= 0 && usec < 1000000 && rss >= 0 && rss < (1<<53))
	k.ru = &unix.Rusage{Utime: unix.Timeval{Sec: sec, Usec: usec}, Maxrss: rss}
	tl, ml := sym.I64("time_limit"), sym.U64("mem_limit")
	sym.Assume(tl >= 0)
	sym.Intercept("golang.org/x/sys/unix.Wait4", k.wait4)
	sym.Intercept("golang.org/x/sys/unix.PtraceSetOptions", k.setOptions)
	sym.Intercept("golang.org/x/sys/unix.PtraceCont", k.cont)
	sym.Intercept("golang.org/x/sys/unix.Kill", k.kill)
	sym.Intercept("github.com/criyle/go-sandbox/ptracer.ptrace", k.ptraceReq)
	sym.Intercept("syscall.PtraceSetRegs", k.setRegsReq)
	t := &Tracer{Handler: &hookHandler{inner: h, k: k}, Limit: runner.Limit{TimeLimit: time.Duration(tl), MemoryLimit: runner.Size(ml)}}
	res := t.trace(context.Background(), pgid)
	ns := sec*1000000000 + usec*1000
	bytes := uint64(rss) << 10
	over := ns > tl || bytes > ml
	if k.lastMain {
		sym.Reach("ended-on-main-event")
		sym.Assert(int64(res.Time) == ns && uint64(res.Memory) == bytes, "the verdict must come together with the measured CPU time and peak memory")
	}
	if over {
		sym.Reach("over-bound")
		sym.Assert(res.Status == runner.StatusTimeLimitExceeded || res.Status == runner.StatusMemoryLimitExceeded, "usage above a bound must be a limit verdict")
		if bytes <= ml {
			sym.Assert(res.Status == runner.StatusTimeLimitExceeded, "time above the bound must be TLE")
		}
		if ns <= tl {
			sym.Assert(res.Status == runner.StatusMemoryLimitExceeded, "memory above the bound must be MLE")
		}
		return
	}
	ws := k.lastWs
	if k.lastMain && ws&0xff == 0x7f && ws>>16 == 0 {
		switch (ws >> 8) & 0xff {
		case 24:
			sym.Reach("xcpu-stop")
			sym.Assert(res.Status == runner.StatusTimeLimitExceeded, "a SIGXCPU delivery must be Time Limit Exceeded")
		case 25:
			sym.Reach("xfsz-stop")
			sym.Assert(res.Status == runner.StatusOutputLimitExceeded, "a SIGXFSZ delivery must be Output Limit Exceeded")
		}
	}
}
