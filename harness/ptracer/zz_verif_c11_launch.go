package ptracer

import (
	"syscall"

	"golang.org/x/sys/unix"

	"github.com/criyle/go-sandbox/pkg/forkexec"
	"github.com/criyle/go-sandbox/runner"
	"github.com/criyle/go-sandbox/zzverif/kern"
	"github.com/criyle/go-sandbox/zzverif/sym"
)

// VerifC11_PtraceCancelDuringLaunch: the real launcher (forkexec.Runner with Ptrace+Seccomp,
// child running as a second model process) under the real Tracer.Trace, with the context
// cancelled before the run or at any scheduling point of launch, synchronisation and run.
// The program never ends by itself: the run must still return (a hang = lost cancellation)
// and report Time Limit Exceeded.
func VerifC11_PtraceCancelDuringLaunch() {
	kern.InstallContext()
	k := kern.NewKernel()
	kern.Install(k)
	k.TracerPresent = true
	host := k.Host()
	for i := 0; i < 3; i++ {
		host.OpenAt(i, k.NewFile("stdio"), false)
	}
	f := []syscall.SockFilter{{Code: 6, K: 0x7fff0000}}
	r := &forkexec.Runner{Args: []string{"/bin/prog"}, Env: []string{"A=1"}, Files: []uintptr{0, 1, 2}, Ptrace: true,
		Seccomp: &syscall.SockFprog{Len: 1, Filter: &f[0]}}
	// tracer-side system calls (x/sys/unix) on the same kernel model
	waitFor := func(pid int) *kern.Proc {
		for _, p := range k.Procs {
			if p.PPid != host.Pid || p.State == kern.StReaped {
				continue
			}
			if (pid > 0 && p.Pid == pid) || (pid < 0 && p.Pgid == -pid) {
				return p
			}
		}
		return nil
	}
	sym.Intercept("golang.org/x/sys/unix.Wait4", func(pid int, ws *unix.WaitStatus, options int, ru *unix.Rusage) (int, error) {
		sym.Yield()
		p := waitFor(pid)
		if p == nil {
			return -1, syscall.ECHILD
		}
		sym.WaitUntil(func() bool { return (p.Stopped && !p.StopReported) || p.State == kern.StZombie })
		if ru != nil {
			*ru = unix.Rusage{}
		}
		if p.State == kern.StZombie {
			p.State = kern.StReaped
			if p.KilledBy != 0 {
				*ws = unix.WaitStatus(p.KilledBy)
			} else {
				*ws = unix.WaitStatus(p.ExitCode << 8)
			}
			return p.Pid, nil
		}
		p.StopReported = true
		*ws = unix.WaitStatus(p.StopStatus)
		return p.Pid, nil
	})
	sym.Intercept("golang.org/x/sys/unix.Kill", func(pid int, sig syscall.Signal) error { return k.KillGroup(pid, sig) })
	sym.Intercept("golang.org/x/sys/unix.PtraceSetOptions", func(pid int, opts int) error {
		if p := k.Procs[pid]; p == nil || !p.Stopped {
			return syscall.ESRCH
		}
		return nil
	})
	sym.Intercept("golang.org/x/sys/unix.PtraceCont", func(pid int, sig int) error {
		sym.Yield()
		p := k.Procs[pid]
		if p == nil || !p.Stopped || p.State != kern.StRunning {
			return syscall.ESRCH
		}
		p.Stopped = false
		p.Continued++
		return nil
	})
	t := &Tracer{Handler: &verifHandler{verdict: TraceAllow}, Runner: r, Limit: runner.Limit{TimeLimit: 1 << 62, MemoryLimit: 1 << 62}}
	ctx, cancel := kern.WithCancel(kern.Background())
	if sym.Bool("pre_cancelled") {
		cancel()
	} else {
		go func() {
			sym.Yield()
			cancel()
		}()
	}
	res := t.Trace(ctx)
	cancel()
	sym.Reach("returned")
	sym.Assert(res.Status == runner.StatusTimeLimitExceeded, "a cancelled run must be reported as Time Limit Exceeded")
	for _, p := range k.Procs {
		if p.PPid == host.Pid {
			sym.Assert(p.State != kern.StRunning, "the program is still running after the cancelled run returned")
		}
	}
}
