package ptracer

import (
	"syscall"

	unix "golang.org/x/sys/unix"

	"github.com/criyle/go-sandbox/zzverif/sym"
)

// Tracee memory model for GetString: the string starts at address addr; byte k (relative
// to addr) is 'a' for k < z, 0 at k == z (if z >= 0) and arbitrary garbage after it; the
// first unmapped byte is at relative offset u (u < 0: everything mapped).
type traceeMem struct {
	addr    uintptr
	z, u    int
	garbage []byte
	calls   int
	peeks   int
	enosys  bool
}

// zWindow: offsets at which the (symbolic) NUL position may lie.
func zWindow(k int) bool {
	return (k >= 0 && k <= 8) || (k >= 4086 && k <= 4104)
}

func (m *traceeMem) byteAt(k int) byte {
	if !zWindow(k) {
		return 'a' // the NUL cannot be here; content outside the windows is irrelevant
	}
	if k == m.z {
		return 0
	}
	if k > m.z && m.z >= 0 {
		g := k - m.z - 1
		if g < len(m.garbage) {
			return m.garbage[g]
		}
		return 'g'
	}
	return 'a'
}

// readv implements the process_vm_readv(2) contract for one local and one remote iovec:
// a partial transfer stops at the first unmapped byte; nothing transferable => EFAULT.
func (m *traceeMem) readv(pid int, localIov, remoteIov []unix.Iovec, flags uintptr) (uintptr, uintptr, syscall.Errno) {
	m.calls++
	if m.enosys {
		return ^uintptr(0), 0, syscall.ENOSYS
	}
	sym.Assert(len(localIov) == 1 && len(remoteIov) == 1, "one iovec pair expected")
	l := int(localIov[0].Len)
	sym.Assert(uint64(l) == remoteIov[0].Len, "local and remote lengths must agree")
	raddr := uintptr(sym.RawAddr(remoteIov[0].Base))
	off := int(raddr - m.addr)
	sym.Assert(off >= 0, "read below the string start")
	// a single call must not cross a page boundary into a page it has not probed:
	// (this is what makes a short first read at an unaligned address safe)
	n := l
	if m.u >= 0 && off+n > m.u {
		n = m.u - off
		if n <= 0 {
			return ^uintptr(0), 0, syscall.EFAULT
		}
	}
	dst := sym.BytesAt(uintptr(sym.PtrToken(localIov[0].Base)), l)
	for k := 0; k < n; k++ {
		dst[k] = m.byteAt(off + k)
	}
	return uintptr(n), 0, 0
}

func (m *traceeMem) peek(pid int, addr uintptr, out []byte) (int, error) {
	m.peeks++
	off := int(addr - m.addr)
	n := len(out)
	if m.u >= 0 && off+n > m.u {
		n = m.u - off
		if n <= 0 {
			return 0, syscall.EIO
		}
	}
	for k := 0; k < n; k++ {
		out[k] = m.byteAt(off + k)
	}
	if n < len(out) {
		return n, syscall.EIO
	}
	return n, nil
}

func getStringHarness(uChoices []int, pageOffs []int) {
	m := &traceeMem{}
	po := pageOffs[sym.Choose("pageoff", len(pageOffs))]
	m.addr = uintptr(0x7f0000000000 + po)
	// the NUL offset is a solver variable ranging over the windows (or -1: no NUL at all)
	m.z = sym.Int("z")
	sym.Assume(m.z == -1 || (m.z >= 0 && m.z <= 8) || (m.z >= 4086 && m.z <= 4104))
	m.u = uChoices[sym.Choose("u", len(uChoices))]
	m.garbage = sym.Bytes("garbage", 3)
	if m.u >= 0 {
		// the unmapped region starts on a page boundary
		abs := int(m.addr) + m.u
		sym.Assume(abs%4096 == 0)
		// the kernel only calls the handler for a pointer it has not yet validated: u may be 0
	}
	sym.Intercept("github.com/criyle/go-sandbox/ptracer.processVMReadv", m.readv)
	sym.Intercept("syscall.PtracePeekData", m.peek)
	UseVMReadv = true
	c := &Context{Pid: 4242}
	got := c.GetString(m.addr)
	// reference: bytes before the first NUL among the readable bytes; empty if nothing readable
	limit := syscall.PathMax
	if m.u >= 0 && m.u < limit {
		limit = m.u
	}
	want := 0
	terminated := false
	if m.z >= 0 && m.z < limit {
		want = m.z
		terminated = true
	} else {
		want = limit
	}
	if terminated {
		sym.Reach("terminated")
		sym.Assert(len(got) == want, "GetString must return exactly the bytes before the first NUL")
	} else {
		sym.Reach("unterminated")
		sym.Assert(len(got) <= syscall.PathMax, "an unterminated string must not yield more than PATH_MAX bytes")
	}
	for k := 0; k < len(got) && k < 8; k++ {
		sym.Assert(got[k] == 'a', "content must be the tracee's bytes")
	}
}

// VerifC15_GetString_Quick: NUL offset and first-unmapped offset in the windows around 0,
// the page boundary and PATH_MAX; start alignments at both ends of a page.
func VerifC15_GetString_Quick() {
	getStringHarness(
		[]int{-1, 0, 1, 6, 4096, 8192},
		[]int{0, 1, 4090, 4095},
	)
}
