package ptracer

import (
	"golang.org/x/sys/unix"

	"github.com/criyle/go-sandbox/runner"
	"github.com/criyle/go-sandbox/zzverif/sym"
)

// VerifC09_PtraceHandleMain: one wait event for the main process after exec, every
// 32-bit status word: exited/signaled are classified per the documented table.
func VerifC09_PtraceHandleMain() {
	h := &verifHandler{verdict: TraceAction(sym.Int("verdict"))}
	t := &Tracer{Handler: h}
	const pgid = 4242
	ph := newPtraceHandle(t, pgid)
	ph.execved = true
	ph.traced[pgid] = true
	ws := sym.U32("wstatus")
	conts := 0
	sym.Intercept("golang.org/x/sys/unix.PtraceCont", func(pid int, sig int) error { conts++; return nil })
	sym.Intercept("golang.org/x/sys/unix.PtraceSetOptions", func(pid int, opt int) error { return nil })
	sym.Intercept("github.com/criyle/go-sandbox/ptracer.getTrapContext", func(pid int) (*Context, error) {
		return &Context{Pid: pid}, nil
	})
	sym.Intercept("(*github.com/criyle/go-sandbox/ptracer.Context).skipSyscall", func(c *Context) error { return nil })
	status, exitStatus, errStr, finished := ph.handle(pgid, unix.WaitStatus(ws))
	switch refKind(ws) {
	case refExited:
		sym.Reach("exited")
		code := refExitCode(ws)
		sym.Assert(finished, "main process exit must finish the run")
		if code == 0 {
			sym.Assert(status == runner.StatusNormal, "exit 0 must be Normal")
		} else {
			sym.Assert(status == runner.StatusNonzeroExitStatus, "non-zero exit must be Nonzero Exit Status")
		}
		sym.Assert(exitStatus == code, "exit status must be the program's exit code")
		sym.Assert(conts == 0, "an exited process must not be resumed")
	case refSignaled:
		sym.Reach("signaled")
		sig := refTermSig(ws)
		sym.Assert(status == refStatusOfSignal(sig), "terminating signal classified against the documented table")
		sym.Assert(status != runner.StatusNormal, "a signal death must end the run")
		sym.Assert(exitStatus == sig, "exit status must be the signal number")
	case refStopped:
		sym.Reach("stopped")
		sym.Assert(!finished, "a stop is not the end of the program")
		if status == runner.StatusRunnerError {
			sym.Assert(errStr != "", "Runner Error needs an explanation")
		}
	}
	if status == runner.StatusRunnerError {
		sym.Assert(errStr != "", "Runner Error needs an explanation")
	}
}

// VerifC09_PtraceHandleSecondary: the same event on a process that is not the main one
// never ends the run with a verdict about the main process.
func VerifC09_PtraceHandleSecondary() {
	h := &verifHandler{verdict: TraceAllow}
	t := &Tracer{Handler: h}
	const pgid = 4242
	const other = 4250
	ph := newPtraceHandle(t, pgid)
	ph.execved = true
	ph.traced[pgid] = true
	if sym.Bool("other_traced") {
		ph.traced[other] = true
	}
	ws := sym.U32("wstatus")
	contSig := -1
	sym.Intercept("golang.org/x/sys/unix.PtraceCont", func(pid int, sig int) error { contSig = sig; return nil })
	sym.Intercept("golang.org/x/sys/unix.PtraceSetOptions", func(pid int, opt int) error { return nil })
	sym.Intercept("github.com/criyle/go-sandbox/ptracer.getTrapContext", func(pid int) (*Context, error) {
		return &Context{Pid: pid}, nil
	})
	status, _, _, finished := ph.handle(other, unix.WaitStatus(ws))
	switch refKind(ws) {
	case refExited:
		sym.Reach("exited")
		sym.Assert(!finished && status == runner.StatusNormal, "exit of a secondary process must not end the run")
	case refSignaled:
		sym.Reach("signaled")
		sym.Assert(!finished && status == runner.StatusNormal, "signal death of a secondary process must not end the run")
	}
	_ = contSig
}
