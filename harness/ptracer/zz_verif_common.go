package ptracer

import (
	"github.com/criyle/go-sandbox/runner"
	"github.com/criyle/go-sandbox/zzverif/sym"
)

// verifHandler is a recording handler with a symbolic verdict.
type verifHandler struct {
	verdict TraceAction
	calls   int
	lastCtx *Context
}

func (h *verifHandler) Handle(c *Context) TraceAction {
	h.calls++
	h.lastCtx = c
	return h.verdict
}
func (h *verifHandler) Debug(v ...interface{}) {}

// reference classification of a wait status word, written from wait(2) and the README table.
const (
	refExited = iota
	refSignaled
	refStopped
	refOther
)

func refKind(ws uint32) int {
	low := ws & 0x7f
	switch {
	case low == 0:
		return refExited
	case ws&0xff == 0x7f:
		return refStopped
	case low != 0x7f:
		return refSignaled
	}
	return refOther
}

func refExitCode(ws uint32) int { return int((ws >> 8) & 0xff) }
func refTermSig(ws uint32) int  { return int(ws & 0x7f) }

// refStatusOfSignal: README "Result Status".
func refStatusOfSignal(sig int) runner.Status {
	switch sig {
	case 24, 9: // SIGXCPU, SIGKILL
		return runner.StatusTimeLimitExceeded
	case 25: // SIGXFSZ
		return runner.StatusOutputLimitExceeded
	case 31: // SIGSYS
		return runner.StatusDisallowedSyscall
	}
	return runner.StatusSignalled
}

var _ = sym.Reach
