package container

import (
	"errors"
	"os"

	"github.com/criyle/go-sandbox/runner"
	"github.com/criyle/go-sandbox/zzverif/kern"
	"github.com/criyle/go-sandbox/zzverif/sym"
)

func openCount(p *kern.Proc) int {
	n := 0
	for _, e := range p.Fds {
		if e != nil {
			n++
		}
	}
	return n
}

// c12: over a history of operations (successful, failing, cancelled) the descriptors of the
// host and of the container init, the children of init and the goroutines of both return
// to their baseline after every call.
func c12(nops int, allowCancel bool) {
	w := newWorld()
	w.multiProc = true
	host := w.k.Host()
	// descriptors the caller hands to Execve
	host.OpenAt(5, w.k.NewFile("stdin"), true)
	host.OpenAt(6, w.k.NewFile("stdout"), true)
	host.OpenAt(7, w.k.NewFile("exe"), true)
	sym.WaitOthers()
	baseThreads := sym.ThreadsAlive()
	baseHost := openCount(host)
	n := 1 + sym.Choose("nops", nops)
	for k := 1; k <= n; k++ {
		c := w.host
		op := sym.Choose("op", 3)
		switch op {
		case 0: // Open batch of two
			res, err := c.Open([]OpenCmd{{Path: "/w/a"}, {Path: "/w/b", MkdirAll: true}})
			if err == nil {
				for _, r := range res {
					if r.File != nil {
						r.File.Close() // the caller owns and closes what it was given
					}
				}
			}
		case 1:
			p := ExecveParam{Args: []string{"/bin/prog"}, Env: []string{"A=1"}, Files: []uintptr{5, 6}}
			if sym.Bool("fexecve") {
				p.ExecFile = 7
			}
			switch sym.Choose("syncfunc", 3) {
			case 1:
				p.SyncFunc = func(pid int) error { return nil }
			case 2:
				p.SyncFunc = func(pid int) error { return errors.New("sync refused") }
			}
			p.SyncAfterExec = sym.Bool("sync_after_exec")
			ctx, cancel := kern.WithCancel(kern.Background())
			w.mayRunForever = false
			w.cancelFn, w.cancelFired = nil, false
			if allowCancel && sym.Bool("cancel") {
				w.mayRunForever = true
				if sym.Bool("cancel_thread") {
					go func() {
						sym.Yield()
						cancel()
					}()
				} else {
					w.cancelFn = cancel
					w.mayRunForever = false
				}
			}
			w.prog = nil
			res := c.Execve(ctx, p)
			w.cancelFn = nil
			cancel()
			_ = res.Status == runner.StatusNormal
			if pr := w.prog; pr != nil && pr.started {
				sym.Reach("program-ran")
				sym.Assert(pr.ended && pr.reaped, "a process of the run is still alive or is a zombie of init when Execve returns")
				if pr.second {
					// killed before the reply (kill(-1)); the container reaps it before it serves the next command
					sym.Reach("second-process")
					sym.Assert(pr.secondDead, "another process of the run is still alive when Execve returns")
				}
				sym.Assert(w.killAllSent > 0, "everything inside the container must be killed after a run")
			}
		case 2:
			c.Ping()
		}
		sym.WaitOthers() // let both sides settle (reply sent, files closed)
		sym.Reach("settled")
		if pr := w.prog; pr != nil && pr.started && pr.second {
			sym.Assert(pr.secondDead && pr.secondReaped, "a process of the run is left as a zombie child of the container init")
		}
		sym.Assert(openCount(host) == baseHost, "the host process leaked (or lost) a descriptor")
		sym.Assert(openCount(w.initProc) == 0, "the container init leaked a descriptor")
		sym.Assert(w.doubleClose == 0 && w.badClose == 0, "a descriptor was closed twice")
		sym.Assert(sym.ThreadsAlive() == baseThreads, "a goroutine was left behind (or a loop goroutine died)")
		sym.Assert(!w.initExited, "the container init exited")
	}
	var _ = os.ErrClosed
}

func VerifC12_Ops1()       { c12(1, false) }
func VerifC12_Ops1Cancel() { c12(1, true) }
func VerifC12_Ops2()       { c12(2, false) }
