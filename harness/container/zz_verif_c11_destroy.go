package container

import (
	"os"

	"github.com/criyle/go-sandbox/runner"
	"github.com/criyle/go-sandbox/zzverif/kern"
	"github.com/criyle/go-sandbox/zzverif/sym"
)

// destroyWorld extends the container model with the host's handle on the container init
// process: Destroy's process.Kill is SIGKILL to pid 1 of the pid namespace, which (K-PROC)
// kills every process inside; process.Wait reaps init.
type destroyGhost struct {
	killCalls      int
	waitCalls      int
	waitBeforeKill bool
	closedAtStart  bool
}

func (w *world) installDestroy(g *destroyGhost) {
	w.host.process = &os.Process{}
	sym.Intercept("(*os.Process).Kill", func(p *os.Process) error {
		sym.Yield()
		g.killCalls++
		if !w.initExited {
			w.initExited = true
			w.l.closed[1] = true
			if pr := w.prog; pr != nil && pr.started && !pr.ended {
				pr.ended, pr.killed, pr.status = true, true, 9
			}
			sym.KillPid(pidInit)
		}
		return nil
	})
	sym.Intercept("(*os.Process).Wait", func(p *os.Process) (*os.ProcessState, error) {
		sym.Yield()
		if g.killCalls == 0 {
			g.waitBeforeKill = true
		}
		// wait4 on init: blocks until init is dead
		sym.WaitUntil(func() bool { return w.initExited })
		g.waitCalls++
		return nil, nil
	})
}

// VerifC11_Destroy*: Destroy at any instant relative to an in-flight Ping / Open /
// Execve (before the call, at any transport event of either side, or from a free-running
// thread).  Both the call and Destroy must return (a hang is reported as a deadlock); a call
// that starts after Destroy closed the socket fails; an Execve whose program never ends by
// itself can only come back as an error; afterwards init was killed and reaped and nothing
// inside is alive.
func VerifC11_DestroyBeforeCall() { c11destroy(0) }
func VerifC11_DestroyThread()     { c11destroy(1) }
func VerifC11_DestroyInjected()   { c11destroy(2) }

func c11destroy(how int) {
	w := newWorld()
	g := &destroyGhost{}
	w.installDestroy(g)
	c := w.host
	destroyed := false
	hostPid := sym.Pid()
	var destroyErr error
	doDestroy := func() {
		destroyErr = c.Destroy()
		destroyed = true
	}
	switch how {
	case 0: // Destroy completed before the call starts
		doDestroy()
		sym.Reach("destroy-before-call")
	case 1: // a free-running thread
		go func() {
			sym.Yield()
			doDestroy()
		}()
	case 2: // at an arbitrary transport event of either side
		w.cancelFn = func() {
			go func() {
				sym.SetPid(hostPid) // the event may be one of the container side: Destroy is a host thread
				doDestroy()
			}()
		}
	}
	startedClosed := w.l.closed[0]
	failed := false
	op := sym.Choose("op", 3)
	switch op {
	case 0:
		failed = c.Ping() != nil
	case 1:
		_, err := c.Open([]OpenCmd{{Path: "/w/a"}})
		failed = err != nil
	case 2:
		p := ExecveParam{Args: []string{"/bin/prog"}, Env: []string{"A=1"}}
		if sym.Bool("with_syncfunc") {
			p.SyncFunc = func(pid int) error { return nil }
			p.SyncAfterExec = sym.Bool("sync_after_exec")
		}
		// (with an injected Destroy the instant may never come: the program then has to end by itself)
		w.mayRunForever = how != 2 && sym.Bool("program_never_ends")
		res := c.Execve(kern.Background(), p)
		failed = res.Status == runner.StatusRunnerError
		if failed {
			sym.Assert(res.Error != "", "Runner Error needs an explanation")
		}
		if w.mayRunForever {
			if pr := w.prog; pr != nil && pr.started && !pr.selfEnds {
				sym.Reach("endless-program-call-returned")
				sym.Assert(failed, "a run of a program that never ends came back without an error although nobody cancelled it")
			}
		}
	}
	sym.Reach("call-returned")
	if startedClosed {
		sym.Assert(failed, "a call made after Destroy closed the socket must fail")
	}
	if failed {
		sym.Reach("call-failed")
	} else {
		sym.Reach("call-succeeded")
	}
	w.cancelFn = nil
	sym.WaitOthers()
	if how == 2 && !w.cancelFired {
		// Destroy never injected: destroy now (idle environment)
		doDestroy()
	}
	sym.Assert(destroyed, "Destroy did not return")
	sym.Reach("destroyed")
	sym.Assert(g.killCalls >= 1, "Destroy must kill the container init")
	sym.Assert(g.waitCalls >= 1, "Destroy must reap the container init")
	sym.Assert(!g.waitBeforeKill, "Destroy waits for the container init before killing it")
	sym.Assert(w.initExited, "container init alive after Destroy")
	if pr := w.prog; pr != nil && pr.started {
		// init is pid 1 of the pid namespace: its death (killed by Destroy, or its own exit once the
		// socket is closed) takes every process inside with it (K-PROC)
		sym.Assert(pr.ended || w.initExited, "a sandboxed program is alive after Destroy")
	}
	sym.Assert(destroyErr == nil, "Destroy reported an error although kill and wait succeeded")
	// a call after Destroy fails promptly
	err := c.Ping()
	sym.Assert(err != nil, "Ping succeeds on a destroyed environment")
}
