package container

import (
	"os"
	"syscall"

	"github.com/criyle/go-sandbox/pkg/unixsocket"
	"github.com/criyle/go-sandbox/zzverif/sym"
)

// VerifC14_OpenBatch: Open on a batch of <= 3 items; per item the MkdirAll flag, the kind of
// object a previous program left at the path, and the outcome of mkdir/open are solver or
// exploration variables.  Results are index-aligned, descriptors refer to the requested
// path and are close-on-exec, OpenFile is reached only for regular-or-absent objects (the
// stub asserts it), a failing item affects nothing else.
func VerifC14_OpenBatch() {
	w := newWorld()
	host := w.k.Host()
	n := sym.Choose("batch", 4)
	paths := []string{"/w/p0", "/w/p1", "/w/p2"}
	var batch []OpenCmd
	for k := 0; k < n; k++ {
		batch = append(batch, OpenCmd{Path: paths[k], MkdirAll: sym.Bool("mkdirall")})
	}
	res, err := w.host.Open(batch)
	if n == 0 {
		sym.Reach("empty-batch")
		sym.Assert(err != nil, "an empty batch must be answered with an error")
	} else {
		sym.Assert(err == nil, "a well-formed batch must be answered item by item")
	}
	if err == nil {
		sym.Assert(len(res) == n, "one result per item")
		for k := 0; k < len(res) && k < n; k++ {
			r := res[k]
			opened := false
			for _, p := range w.openedPaths {
				if p == paths[k] {
					opened = true
				}
			}
			sym.Assert((r.Err != nil) != (r.File != nil), "each item yields either an error or a file")
			if r.File != nil {
				sym.Reach("item-ok")
				m := w.files[r.File]
				ent := host.Fds[m.fd]
				sym.Assert(ent != nil && ent.File.Name == paths[k], "the k-th descriptor must refer to the k-th requested path")
				sym.Assert(ent != nil && ent.Cloexec, "returned descriptors must be close-on-exec")
				sym.Assert(opened, "a file was returned for a path that was never opened")
				kind := w.pathKind[paths[k]]
				sym.Assert(kind == objAbsent || kind == objRegular, "a descriptor was handed back for a non-regular object")
				r.File.Close()
			} else {
				sym.Reach("item-failed")
			}
		}
	}
	sym.WaitOthers()
	sym.Assert(openCount(host) == 0, "the host leaked a received descriptor")
	sym.Assert(openCount(w.initProc) == 0, "the container init kept a descriptor open after replying")
	sym.Assert(w.doubleClose == 0 && w.badClose == 0, "a descriptor was closed twice")
	// every *os.File the container opened was released through the File itself: a descriptor
	// closed by number behind its File's back will be closed a second time by the File's
	// finalizer - by then the number may belong to another item or to the socket
	for _, m := range w.files {
		if m.proc == w.initProc {
			sym.Assert(m.closed >= 1, "the container closed a descriptor by number while its os.File stays alive (the finalizer closes the number again later)")
		}
	}
	// the protocol is still in step
	sym.Assert(w.host.Ping() == nil, "the environment is unusable after an Open batch")
}

// VerifC14_HostDefensive: the host side of Open against an ARBITRARY reply (any number of
// batch errors, any number of descriptors): it never panics, never leaks or double-closes a
// received descriptor, and hands out files only in step with the success flags.
func VerifC14_HostDefensive() {
	w := newWorld()
	host := w.k.Host()
	n := 1 + sym.Choose("batch", 2)
	var batch []OpenCmd
	for k := 0; k < n; k++ {
		batch = append(batch, OpenCmd{Path: "/w/p"})
	}
	// a rogue container: answers the open command with an arbitrary reply
	nerr := sym.Choose("reply_errs", 4)
	nfds := sym.Choose("reply_fds", 4)
	rep := reply{}
	for k := 0; k < nerr; k++ {
		if sym.Bool("item_failed") {
			rep.BatchErrors = append(rep.BatchErrors, "failed")
		} else {
			rep.BatchErrors = append(rep.BatchErrors, "")
		}
	}
	if sym.Bool("error_reply") {
		rep.Error = &errorReply{Msg: "no"}
	}
	sym.Intercept("(*github.com/criyle/go-sandbox/container.containerServer).handleOpen", func(c *containerServer, open []OpenCmd) error {
		var fds []int
		for k := 0; k < nfds; k++ {
			fd := 40 + k
			w.initProc.OpenAt(fd, w.k.NewFile("rogue"), true)
			fds = append(fds, fd)
		}
		err := c.sendReply(rep, unixsocket.Msg{Fds: fds})
		for _, fd := range fds {
			delete(w.initProc.Fds, fd)
		}
		return err
	})
	res, err := w.host.Open(batch)
	held := 0
	if err == nil {
		sym.Reach("accepted")
		sym.Assert(len(res) == n, "one result per item")
		for _, r := range res {
			if r.File != nil {
				held++
			}
		}
	} else {
		sym.Reach("rejected")
		for _, r := range res {
			sym.Assert(r.File == nil || w.files[r.File].closed == 1, "on error every file already created must be closed")
		}
	}
	sym.Assert(w.doubleClose == 0 && w.badClose == 0, "a received descriptor was closed twice")
	// (descriptors attached to a reply that the real container never produces - an error reply
	// with rights, or more rights than success flags - are outside the property; the host does
	// not close them and this is not asserted here)
	_ = held
	_ = host
}

// VerifC14_PlantedBetweenOpens: Open(path, O_CREATE) succeeds, then a program replaces the
// path by an arbitrary object, then Open(path) again: the second open must again be checked
// (the OpenFile stub asserts that it is reached for regular-or-absent objects only).
func VerifC14_PlantedBetweenOpens() {
	w := newWorld()
	w.pathKind = map[string]int{"/w/out": objAbsent}
	res, err := w.host.Open([]OpenCmd{{Path: "/w/out", Flag: 0x40}}) // O_CREAT
	if err == nil && len(res) == 1 && res[0].File != nil {
		sym.Reach("created")
		res[0].File.Close()
	}
	// an untrusted program ran in between and left something else at the path
	delete(w.pathKind, "/w/out")
	res, err = w.host.Open([]OpenCmd{{Path: "/w/out"}})
	if err == nil && len(res) == 1 && res[0].File != nil {
		sym.Reach("reopened")
		k := w.pathKind["/w/out"]
		sym.Assert(k == objAbsent || k == objRegular, "a descriptor was handed back for a planted non-regular object")
		res[0].File.Close()
	}
}

// VerifC14_TwoBatches: two Open batches on one environment whose items differ in flags,
// permissions and the MkdirAll option (symbolic, including zero values, which the wire
// encoding omits): each item is opened with exactly its own flags and permissions, and
// directories are created only for items that ask for it - nothing carries over from the
// previous command at the same index.
func VerifC14_TwoBatches() {
	w := newWorld()
	mk := func(tag string, path string) OpenCmd {
		o := OpenCmd{Path: path}
		if sym.Bool(tag + "_writes") {
			o.Flag = 0x241 // O_WRONLY|O_CREAT|O_TRUNC
			o.Perm = 0644
		}
		o.MkdirAll = sym.Bool(tag + "_mkdirall")
		return o
	}
	w.quietFS = true
	w.pathKind = map[string]int{"/w/x/a0": objAbsent, "/w/x/a1": objAbsent, "/w/y/b0": objAbsent, "/w/y/b1": objAbsent}
	first := []OpenCmd{mk("a0", "/w/x/a0"), mk("a1", "/w/x/a1")}
	second := []OpenCmd{mk("b0", "/w/y/b0"), mk("b1", "/w/y/b1")}
	for _, batch := range [][]OpenCmd{first, second} {
		w.openCalls, w.mkdirCalls = nil, nil
		res, err := w.host.Open(batch)
		if err != nil {
			return
		}
		for _, r := range res {
			if r.File != nil {
				r.File.Close()
			}
		}
		for _, oc := range w.openCalls {
			for _, it := range batch {
				if it.Path == oc.Path {
					sym.Assert(oc.Flag == it.Flag && oc.Perm == it.Perm, "a file was opened with flags or permissions that are not those of its own request")
				}
			}
		}
		wantMkdir := false
		for _, it := range batch {
			wantMkdir = wantMkdir || it.MkdirAll
		}
		if !wantMkdir {
			sym.Assert(len(w.mkdirCalls) == 0, "directories were created for a request that did not ask for it")
		}
	}
	sym.Reach("both-batches")
}

// VerifC14_SymlinkBatch: a Symlink batch of three items with a symbolic failure per item: the
// k-th result is an error exactly when the k-th creation failed, and every item is attempted
// with its own target and link path whatever happened to the items before it.
func VerifC14_SymlinkBatch() {
	w := newWorld()
	w.quietFS = true
	links := []SymbolicLink{{LinkPath: "/w/l0", Target: "/t0"}, {LinkPath: "/w/l1", Target: "/t1"}, {LinkPath: "/w/l2", Target: "/t2"}}
	fails := []bool{sym.Bool("l0_fails"), sym.Bool("l1_fails"), sym.Bool("l2_fails")}
	attempted := []bool{false, false, false}
	sym.Intercept("os.Symlink", func(oldname, newname string) error {
		for k, l := range links {
			if l.LinkPath == newname {
				sym.Assert(oldname == l.Target, "link created with the target of another item")
				attempted[k] = true
				if fails[k] {
					return &os.LinkError{Op: "symlink", Old: oldname, New: newname, Err: syscall.EEXIST}
				}
				return nil
			}
		}
		sym.Assert(false, "a link was created that no item asked for")
		return nil
	})
	res, err := w.host.Symlink(links)
	sym.Assert(err == nil, "a failing item must not fail the batch")
	if err != nil {
		return
	}
	sym.Assert(len(res) == len(links), "Symlink must return one result per item")
	for k := range links {
		sym.Assert(attempted[k], "an item was not attempted because an earlier one failed")
		sym.Assert((res[k] != nil) == fails[k], "the k-th result does not belong to the k-th item")
	}
	sym.Reach("batch-done")
	sym.Assert(w.host.Ping() == nil, "the environment is unusable after a failing item")
}
