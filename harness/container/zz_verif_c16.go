package container

import (
	"errors"

	"github.com/criyle/go-sandbox/zzverif/kern"
	"github.com/criyle/go-sandbox/zzverif/sym"
)

const pidController = 1000

// VerifC16_ControllerDies: the controlling process is killed at an arbitrary instant of an
// operation (idle, during sync, while a program runs, during a file operation): its threads
// vanish and its socket end closes.  Without any further input the container init must
// reach its exit (as pid 1 of the pid namespace this kills everything inside); the
// parent-death signal is deliberately NOT modelled, so the socket mechanism alone must do.
func VerifC16_ControllerDies() {
	sym.SetPid(pidController)
	w := newWorld() // host loop goroutines are threads of the controller
	w.crashArmed = true
	sym.SetPid(9999) // the observer is not part of the controller
	// the operation in flight (a thread of the controller)
	go func() {
		sym.SetPid(pidController)
		c := w.host
		switch sym.Choose("op", 4) {
		case 0:
			c.Ping()
		case 1:
			c.Open([]OpenCmd{{Path: "/w/a"}})
		case 2:
			p := ExecveParam{Args: []string{"/bin/prog"}, Env: []string{"A=1"}}
			if sym.Bool("with_syncfunc") {
				p.SyncFunc = func(pid int) error {
					if sym.Bool("controller_crashes_in_callback") && !w.crashed {
						w.crashed = true
						w.l.closed[0] = true
						sym.Reach("controller-killed")
						sym.KillPid(pidController)
						sym.ExitThread(137)
					}
					return nil
				}
			}
			p.SyncAfterExec = sym.Bool("sync_after_exec")
			w.mayRunForever = true
			c.Execve(kern.Background(), p)
		case 3:
			// idle
		}
		// after the operation: idle controller dies
		if !w.crashed {
			w.crashed = true
			w.l.closed[0] = true
			sym.Reach("controller-killed")
			sym.Reach("killed-while-idle")
			sym.KillPid(pidController)
		}
	}()
	sym.WaitOthers()
	sym.Assume(w.crashed) // runs in which the controller stays alive (and blocked) are not the subject
	sym.Assert(w.initExited, "the container init keeps running after its controller died")
	if pr := w.prog; pr != nil && pr.started && !pr.ended {
		// still alive: only acceptable because init (pid 1 of the namespace) has exited
		sym.Reach("program-outlives-serve")
		sym.Assert(w.initExited, "a sandboxed program is left running unsupervised")
	}
	_ = errors.New
}
