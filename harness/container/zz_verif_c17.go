package container

import (
	"io/fs"
	"syscall"

	"github.com/criyle/go-sandbox/runner"
	"github.com/criyle/go-sandbox/zzverif/kern"
	"github.com/criyle/go-sandbox/zzverif/sym"
)

// VerifC17_TwoCallers: two goroutines use one environment concurrently (all interleavings
// within the delay bound).  Each call must get the answer to ITS command: caller A deletes
// a path whose removal fails, caller B one whose removal succeeds, so a swapped or shared
// reply is visible in the results.
func VerifC17_TwoCallers() {
	w := newWorld()
	sym.Intercept("os.Remove", func(name string) error {
		if name == "/w/fails" {
			return &fs.PathError{Op: "remove", Path: name, Err: syscall.ENOENT}
		}
		return nil
	})
	var errA, errB error
	doneA, doneB := false, false
	opB := sym.Choose("opB", 2)
	go func() {
		errA = w.host.Delete("/w/fails")
		doneA = true
	}()
	go func() {
		if opB == 0 {
			errB = w.host.Delete("/w/ok")
		} else {
			errB = w.host.Ping()
		}
		doneB = true
	}()
	sym.WaitOthers()
	sym.Assert(doneA && doneB, "a concurrent call did not return")
	sym.Reach("both-returned")
	sym.Assert(errA != nil, "caller A consumed the (successful) answer of another call")
	sym.Assert(errB == nil, "caller B consumed the (failing) answer of another call")
	sym.Assert(!w.initExited, "concurrent calls desynchronised the protocol")
	sym.Assert(w.host.Ping() == nil, "the environment is unusable after concurrent calls")
}

// VerifC17_PingDuringExecve: one goroutine runs a (long-running) program in an environment
// while another pings the same environment (all interleavings within the delay bound; the
// 3-second socket deadline of Ping may expire whenever it is armed while the program still
// runs).  The run must end with the program's genuine verdict, the Ping must succeed, the
// environment stays usable: a caller's timeout must never reach another caller's exchange.
func VerifC17_PingDuringExecve() {
	w := newWorld()
	w.onlyRun = true
	var res runner.Result
	var errB error
	doneA, doneB := false, false
	go func() {
		res = w.host.Execve(kern.Background(), ExecveParam{Args: []string{"/bin/prog"}, Env: []string{"A=1"}})
		doneA = true
	}()
	go func() {
		errB = w.host.Ping()
		doneB = true
	}()
	sym.WaitOthers()
	sym.Assert(doneA && doneB, "a concurrent call did not return")
	sym.Reach("both-returned")
	if pr := w.prog; pr != nil && pr.started {
		sym.Reach("program-ran")
		sym.Assert(res.Status == refVerdict(pr.status), "a concurrent Ping changed the verdict of a run in the same environment")
	}
	sym.Assert(errB == nil, "Ping failed although the container answers")
	sym.Assert(!w.initExited, "concurrent calls desynchronised the protocol")
	sym.Assert(w.host.Ping() == nil, "the environment is unusable after concurrent calls")
}

// VerifC17_ThreeCallers: three goroutines use one environment concurrently (delay bound 1):
// a failing Delete, a succeeding Delete and a Ping each get the answer to their own command.
func VerifC17_ThreeCallers() {
	w := newWorld()
	sym.Intercept("os.Remove", func(name string) error {
		if name == "/w/fails" {
			return &fs.PathError{Op: "remove", Path: name, Err: syscall.ENOENT}
		}
		return nil
	})
	var errA, errB, errC error
	done := 0
	go func() { errA = w.host.Delete("/w/fails"); done++ }()
	go func() { errB = w.host.Delete("/w/ok"); done++ }()
	go func() { errC = w.host.Ping(); done++ }()
	sym.WaitOthers()
	sym.Assert(done == 3, "a concurrent call did not return")
	sym.Reach("all-returned")
	sym.Assert(errA != nil, "caller A consumed the (successful) answer of another call")
	sym.Assert(errB == nil && errC == nil, "a caller consumed the (failing) answer of another call")
	sym.Assert(!w.initExited, "concurrent calls desynchronised the protocol")
	sym.Assert(w.host.Ping() == nil, "the environment is unusable after concurrent calls")
}

// VerifC17_OpDuringExecve: while one goroutine runs a program in an environment, another
// performs any other operation on the same environment (Open, Delete, Symlink, Reset): the
// run keeps its genuine verdict (the other call's command must never be taken for the run's
// kill message), the other call gets its own answer, the environment stays usable.
func VerifC17_OpDuringExecve() {
	w := newWorld()
	w.onlyRun = true
	w.quietFS = true
	var res runner.Result
	var errB error
	doneA, doneB := false, false
	opB := sym.Choose("opB", 4)
	go func() {
		res = w.host.Execve(kern.Background(), ExecveParam{Args: []string{"/bin/prog"}, Env: []string{"A=1"}})
		doneA = true
	}()
	go func() {
		switch opB {
		case 0:
			var r []OpenCmdResult
			r, errB = w.host.Open([]OpenCmd{{Path: "/w/a"}})
			for _, x := range r {
				if x.File != nil {
					x.File.Close()
				}
			}
		case 1:
			errB = w.host.Delete("/w/a")
		case 2:
			_, errB = w.host.Symlink([]SymbolicLink{{LinkPath: "/w/l", Target: "/w/a"}})
		case 3:
			errB = w.host.Reset()
		}
		doneB = true
	}()
	sym.WaitOthers()
	sym.Assert(doneA && doneB, "a concurrent call did not return")
	sym.Reach("both-returned")
	if pr := w.prog; pr != nil && pr.started {
		sym.Reach("program-ran")
		sym.Assert(res.Status == refVerdict(pr.status), "a concurrent call changed the verdict of a run in the same environment")
	}
	sym.Assert(errB == nil, "the concurrent call failed although the container answers")
	sym.Assert(!w.initExited, "concurrent calls desynchronised the protocol")
	sym.Assert(w.host.Ping() == nil, "the environment is unusable after concurrent calls")
}
