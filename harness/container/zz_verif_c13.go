package container

import (
	"io/fs"
	"os"
	"syscall"

	"github.com/criyle/go-sandbox/pkg/mount"
	"github.com/criyle/go-sandbox/pkg/unixsocket"
	"github.com/criyle/go-sandbox/zzverif/sym"
)

// VerifC13_Reset: the mount table (<=3 entries, symbolic file-system type), the entries an
// earlier program left under each target (<=2, any name/kind/mode - RemoveAll removes a
// subtree whatever it is, or fails) and faults on open/readdir/removeall are symbolic.  A
// success reply to Reset implies that no tmpfs target has anything left; any failure gives
// an error reply; no directory handle leaks.
func VerifC13_Reset() {
	type dir struct {
		children map[string]bool
		tmpfs    bool
	}
	dirs := map[string]*dir{}
	dangling := map[string]bool{}
	var mounts []mount.Mount
	n := sym.Choose("nmounts", 4)
	targets := []string{"w", "work", "w/sub"} // names sharing a string prefix, and a nested one
	for k := 0; k < n; k++ {
		fst := []string{"tmpfs", "", "proc"}[sym.Choose("fstype", 3)]
		mounts = append(mounts, mount.Mount{Source: "src", Target: targets[k], FsType: fst})
		d := &dir{children: map[string]bool{}, tmpfs: fst == "tmpfs"}
		nc := sym.Choose("nchildren", 3)
		names := []string{".hidden", "deep"}
		for c := 0; c < nc; c++ {
			d.children[names[c]] = true
			// the leftover may be anything, e.g. a symbolic link whose target does not exist
			if sym.Bool("leftover_is_dangling_symlink") {
				dangling["/"+targets[k]+"/"+names[c]] = true
			}
		}
		dirs["/"+targets[k]] = d
	}
	lookup := func(p string) (present bool) {
		for dn, d := range dirs {
			for c, pr := range d.children {
				if p == dn+"/"+c && pr {
					return true
				}
			}
		}
		return dirs[p] != nil
	}
	sym.Intercept("os.Stat", func(p string) (os.FileInfo, error) { // follows links
		if !lookup(p) || dangling[p] {
			return nil, &fs.PathError{Op: "stat", Path: p, Err: syscall.ENOENT}
		}
		return fakeInfo{0644}, nil
	})
	sym.Intercept("os.Lstat", func(p string) (os.FileInfo, error) {
		if !lookup(p) {
			return nil, &fs.PathError{Op: "lstat", Path: p, Err: syscall.ENOENT}
		}
		if dangling[p] {
			return fakeInfo{os.ModeSymlink | 0777}, nil
		}
		return fakeInfo{0644}, nil
	})
	openDirs := 0
	handles := map[*os.File]string{}
	sym.Intercept("os.Open", func(name string) (*os.File, error) {
		if sym.Bool("open_fails") {
			return nil, &fs.PathError{Op: "open", Path: name, Err: syscall.EACCES}
		}
		sym.Assert(dirs[name] != nil, "Reset opened a directory that is not a mount target")
		f := new(os.File)
		handles[f] = name
		openDirs++
		return f, nil
	})
	sym.Intercept("(*os.File).Readdirnames", func(f *os.File, n int) ([]string, error) {
		if sym.Bool("readdir_fails") {
			return nil, syscall.EIO
		}
		var names []string
		if d := dirs[handles[f]]; d != nil {
			for c, present := range d.children {
				if present {
					names = append(names, c)
				}
			}
		}
		return names, nil
	})
	sym.Intercept("(*os.File).Close", func(f *os.File) error {
		if _, ok := handles[f]; ok {
			delete(handles, f)
			openDirs--
		}
		return nil
	})
	sym.Intercept("os.RemoveAll", func(p string) error {
		if sym.Bool("removeall_fails") {
			return &fs.PathError{Op: "unlinkat", Path: p, Err: syscall.EBUSY}
		}
		for dn, d := range dirs {
			for c := range d.children {
				if p == dn+"/"+c {
					d.children[c] = false
				}
			}
		}
		return nil
	})
	var got *reply
	sym.Intercept("(*github.com/criyle/go-sandbox/container.containerServer).sendReplyFiles", func(c *containerServer, rep reply, msg unixsocket.Msg, files []*os.File) error {
		r := rep
		got = &r
		return nil
	})
	cs := &containerServer{}
	cs.containerConfig.Mounts = mounts
	err := cs.handleReset()
	sym.Assert(err == nil && got != nil, "Reset must always answer")
	if got == nil {
		return
	}
	sym.Assert(openDirs == 0, "a directory handle leaked")
	if got.Error == nil {
		sym.Reach("success")
		for name, d := range dirs {
			if !d.tmpfs {
				continue
			}
			for c, present := range d.children {
				sym.Assert(!present, "Reset reported success but an entry of an earlier run remains in "+name+": "+c)
			}
		}
	} else {
		sym.Reach("error-reply")
	}
}
