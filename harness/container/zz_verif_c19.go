package container

import (
	"bytes"
	"encoding/gob"
	"net"
	"syscall"

	"github.com/criyle/go-sandbox/pkg/unixsocket"
	"github.com/criyle/go-sandbox/zzverif/sym"
)

// VerifC19_FramedCap: the framed layer refuses a payload larger than the 32 KiB buffer
// BEFORE anything is put on the wire (the encoded length is a solver variable), and sends
// exactly the encoded bytes otherwise.
func VerifC19_FramedCap() {
	soc := &socket{Socket: &unixsocket.Socket{UnixConn: &net.UnixConn{}}}
	soc.buff = make([]byte, 8)
	encLen := sym.Int("encoded_len")
	sym.Assume(encLen >= 0 && encLen <= 40000)
	sent := -1
	sym.Intercept("(*encoding/gob.Encoder).Encode", func(e *gob.Encoder, v any) error {
		// the encoder appends the encoded value to the socket's send buffer
		n := sym.ConcreteInt(classOf(encLen))
		soc.sendBuff.Write(make([]byte, n))
		return nil
	})
	sym.Intercept("(*github.com/criyle/go-sandbox/pkg/unixsocket.Socket).SendMsg", func(u *unixsocket.Socket, b []byte, m unixsocket.Msg) error {
		sent = len(b)
		if sym.Bool("transport_fails") {
			return syscall.EPIPE
		}
		return nil
	})
	err := soc.SendMsg(cmd{Cmd: cmdPing}, unixsocket.Msg{})
	n := classOf(encLen)
	if n > bufferSize {
		sym.Reach("too-large")
		sym.Assert(err != nil, "an oversized message must be rejected on the sending side")
		sym.Assert(sent == -1, "an oversized message must not reach the wire")
	} else {
		sym.Reach("fits")
		sym.Assert(sent == n, "exactly the encoded bytes must be sent")
	}
	var _ = bytes.MinRead
}

// classOf maps the symbolic length to representatives around the cap so that the buffer
// operations run on concrete sizes (0, 1, cap-1, cap, cap+1, 40000).
func classOf(n int) int {
	switch {
	case n == 0:
		return 0
	case n < bufferSize-1:
		return 1
	case n == bufferSize-1:
		return bufferSize - 1
	case n == bufferSize:
		return bufferSize
	case n == bufferSize+1:
		return bufferSize + 1
	}
	return 40000
}

// ---- abstract gob stream: an encoder writes, in front of the first value of a type, the
// description of that type; a decoder needs the description before the first value and
// rejects a description it already has ("duplicate type received").  Records are
// [kind, typeid, id, pad...]; a "big" value is padded beyond the 32 KiB cap.

type c19Msg struct{ ID int }

const (
	recType  = 0x54
	recValue = 0x56
)

type gobWorld struct {
	encW      map[*gob.Encoder]*bytes.Buffer
	encKnown  map[*gob.Encoder]bool
	decR      map[*gob.Decoder]*bufferRotator
	decKnown  map[*gob.Decoder]bool
	nextBig   bool
	wire      [][]byte
	sendFails bool
}

func installGobWorld() *gobWorld {
	g := &gobWorld{encW: map[*gob.Encoder]*bytes.Buffer{}, encKnown: map[*gob.Encoder]bool{}, decR: map[*gob.Decoder]*bufferRotator{}, decKnown: map[*gob.Decoder]bool{}}
	sym.Intercept("encoding/gob.NewEncoder", func(w any) *gob.Encoder {
		e := new(gob.Encoder)
		g.encW[e] = w.(*bytes.Buffer)
		return e
	})
	sym.Intercept("encoding/gob.NewDecoder", func(r any) *gob.Decoder {
		d := new(gob.Decoder)
		g.decR[d] = r.(*bufferRotator)
		return d
	})
	sym.Intercept("(*encoding/gob.Encoder).Encode", func(e *gob.Encoder, v any) error {
		w := g.encW[e]
		sym.Assert(w != nil, "model: unknown encoder")
		m := v.(*c19Msg)
		if !g.encKnown[e] {
			g.encKnown[e] = true
			w.Write([]byte{recType, 1, 0})
		}
		w.Write([]byte{recValue, 1, byte(m.ID)})
		if g.nextBig {
			w.Write(make([]byte, bufferSize))
		}
		return nil
	})
	sym.Intercept("(*encoding/gob.Decoder).Decode", func(d *gob.Decoder, v any) error {
		r := g.decR[d]
		sym.Assert(r != nil, "model: unknown decoder")
		for {
			rec := make([]byte, 3)
			n, _ := r.Read(rec)
			if n < 3 {
				return syscall.EIO // io.ErrUnexpectedEOF / EOF
			}
			switch rec[0] {
			case recType:
				if g.decKnown[d] {
					return syscall.EINVAL // gob: duplicate type received
				}
				g.decKnown[d] = true
			case recValue:
				if !g.decKnown[d] {
					return syscall.ENOENT // gob: type not found
				}
				v.(*c19Msg).ID = int(rec[2])
				return nil
			default:
				return syscall.EBADMSG
			}
		}
	})
	sym.Intercept("(*github.com/criyle/go-sandbox/pkg/unixsocket.Socket).SendMsg", func(u *unixsocket.Socket, b []byte, m unixsocket.Msg) error {
		if g.sendFails {
			return syscall.EBADF // e.g. a bad descriptor in the ancillary data
		}
		g.wire = append(g.wire, append([]byte(nil), b...))
		return nil
	})
	sym.Intercept("(*github.com/criyle/go-sandbox/pkg/unixsocket.Socket).RecvMsg", func(u *unixsocket.Socket, b []byte) (int, unixsocket.Msg, error) {
		if len(g.wire) == 0 {
			return 0, unixsocket.Msg{}, syscall.ECONNRESET
		}
		p := g.wire[0]
		g.wire = g.wire[1:]
		if len(p) > len(b) {
			return 0, unixsocket.Msg{}, syscall.EMSGSIZE
		}
		return copy(b, p), unixsocket.Msg{}, nil
	})
	return g
}

// VerifC19_FramedSequence: the real framed layer (socket.SendMsg / RecvMsg, 32 KiB cap) on
// both ends over a packet transport, for sequences of three messages where each send may
// fail in the transport or be oversized (symbolic): every packet that reaches the receiver
// is received and decodes to exactly the message whose send produced it - a message that was
// never sent successfully is never delivered, and an earlier failure neither changes what a
// later message says nor makes the receiver reject it.
func VerifC19_FramedSequence() {
	g := installGobWorld()
	snd := newSocket(&unixsocket.Socket{UnixConn: &net.UnixConn{}})
	rcv := newSocket(&unixsocket.Socket{UnixConn: &net.UnixConn{}})
	var sentIDs []int
	firstUseDropped := false // the very first message (which carries the type description) did not reach the wire
	for k := 1; k <= 3; k++ {
		g.sendFails = sym.Bool("transport_send_fails")
		g.nextBig = sym.Bool("oversized")
		before := len(g.wire)
		err := snd.SendMsg(&c19Msg{ID: k}, unixsocket.Msg{})
		if g.sendFails || g.nextBig {
			sym.Reach("send-rejected")
			sym.Assert(err != nil, "a send that failed or was over the cap must be reported")
			if g.nextBig {
				sym.Assert(len(g.wire) == before, "an oversized message must not reach the wire")
			}
		} else {
			sym.Assert(err == nil, "a message within the cap on a working transport must be sent")
		}
		if len(g.wire) > before {
			sentIDs = append(sentIDs, k)
		} else if len(sentIDs) == 0 {
			firstUseDropped = true
		}
	}
	for _, want := range sentIDs {
		var m c19Msg
		_, err := rcv.RecvMsg(&m)
		if err != nil {
			sym.Reach("receive-rejected")
			if firstUseDropped {
				// known finding: the dropped first message took the gob type description with it
				sym.Extra("class", "type-description-lost-with-first-message")
				sym.Assert(false, "a fitting message is not received after the first message of its type was rejected on the sending side")
			} else {
				sym.Assert(false, "a message that was sent successfully is rejected by the receiver")
			}
			continue
		}
		sym.Reach("delivered")
		sym.Assert(m.ID == want, "a delivered message is not the one whose send produced the packet (stale or foreign content)")
	}
}
