package container

import (
	"bytes"
	"encoding/gob"
	"net"
	"syscall"

	"github.com/criyle/go-sandbox/pkg/unixsocket"
	"github.com/criyle/go-sandbox/zzverif/sym"
)

// VerifC19_FramedCap: the framed layer refuses a payload larger than the 32 KiB buffer
// BEFORE anything is put on the wire (the encoded length is a solver variable), and sends
// exactly the encoded bytes otherwise.
func VerifC19_FramedCap() {
	soc := &socket{Socket: &unixsocket.Socket{UnixConn: &net.UnixConn{}}}
	soc.buff = make([]byte, 8)
	encLen := sym.Int("encoded_len")
	sym.Assume(encLen >= 0 && encLen <= 40000)
	sent := -1
	sym.Intercept("(*encoding/gob.Encoder).Encode", func(e *gob.Encoder, v any) error {
		// the encoder appends the encoded value to the socket's send buffer
		n := sym.ConcreteInt(classOf(encLen))
		soc.sendBuff.Write(make([]byte, n))
		return nil
	})
	sym.Intercept("(*github.com/criyle/go-sandbox/pkg/unixsocket.Socket).SendMsg", func(u *unixsocket.Socket, b []byte, m unixsocket.Msg) error {
		sent = len(b)
		if sym.Bool("transport_fails") {
			return syscall.EPIPE
		}
		return nil
	})
	err := soc.SendMsg(cmd{Cmd: cmdPing}, unixsocket.Msg{})
	n := classOf(encLen)
	if n > bufferSize {
		sym.Reach("too-large")
		sym.Assert(err != nil, "an oversized message must be rejected on the sending side")
		sym.Assert(sent == -1, "an oversized message must not reach the wire")
	} else {
		sym.Reach("fits")
		sym.Assert(sent == n, "exactly the encoded bytes must be sent")
	}
	var _ = bytes.MinRead
}

// classOf maps the symbolic length to representatives around the cap so that the buffer
// operations run on concrete sizes (0, 1, cap-1, cap, cap+1, 40000).
func classOf(n int) int {
	switch {
	case n == 0:
		return 0
	case n < bufferSize-1:
		return 1
	case n == bufferSize-1:
		return bufferSize - 1
	case n == bufferSize:
		return bufferSize
	case n == bufferSize+1:
		return bufferSize + 1
	}
	return 40000
}
