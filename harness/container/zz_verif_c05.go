package container

import (
	"io/fs"
	"os"
	"syscall"

	"github.com/criyle/go-sandbox/pkg/mount"
	"github.com/criyle/go-sandbox/zzverif/sym"
)

type mcall struct {
	source, target, fstype string
	flags                  uintptr
	data                   string
}

const c05RoMask = syscall.MS_NOSUID | syscall.MS_NODEV | syscall.MS_NOEXEC | syscall.MS_NOATIME | syscall.MS_NODIRATIME | syscall.MS_RELATIME

func c05Oracle(calls []mcall, target string, wantRO bool, isBind bool, srcFlags uintptr) {
	var first, re *mcall
	for i := range calls {
		c := &calls[i]
		if c.target != target {
			continue
		}
		if c.flags&syscall.MS_REMOUNT != 0 {
			re = c
		} else if first == nil {
			first = c
		}
	}
	sym.Assert(first != nil, "a configured mount was never performed: "+target)
	if first == nil {
		return
	}
	effRO := false
	if isBind {
		sym.Assert(first.flags&syscall.MS_BIND != 0, "a bind entry must be mounted with MS_BIND")
		if re != nil {
			sym.Assert(re.flags&syscall.MS_BIND != 0, "a bind remount needs MS_REMOUNT|MS_BIND")
			effRO = re.flags&syscall.MS_RDONLY != 0
			sym.Assert(re.flags&(srcFlags&c05RoMask) == srcFlags&c05RoMask, "the read-only remount drops a flag that is locked on the source (EPERM)")
		}
	} else {
		effRO = first.flags&syscall.MS_RDONLY != 0
	}
	if wantRO {
		sym.Reach("read-only-entry")
		sym.Assert(effRO, "a mount declared read-only is writable: "+target)
	} else {
		sym.Reach("writable-entry")
		sym.Assert(!effRO, "a mount declared writable is read-only: "+target)
	}
}

// VerifC05_ContainerMounts: the in-container mount sequence (initFileSystem, Mount.Mount,
// maskPath) for a table built by the real Builder, judged by the same K-MNT oracle as the
// raw in-child sequence: read-only means read-only, the root is a read-only tmpfs, the old
// root is detached and removed, masked paths are covered.
func VerifC05_ContainerMounts() {
	var calls []mcall
	var mkdirs, removed, symlinks []string
	pivoted, detached := false, false
	srcIsFile := sym.Bool("src_is_file")
	srcFlags := uintptr(sym.U64("statfs_flags"))
	maskKind := sym.Choose("masked_object", 3) // 0 file, 1 directory, 2 absent
	sym.Intercept("os.Stat", func(p string) (os.FileInfo, error) {
		if p == "/missing" {
			return nil, &fs.PathError{Op: "stat", Path: p, Err: syscall.ENOENT}
		}
		if srcIsFile && p == "/data/src" {
			return fakeInfo{0644}, nil
		}
		return fakeInfo{os.ModeDir | 0755}, nil
	})
	sym.Intercept("os.MkdirAll", func(p string, perm os.FileMode) error { mkdirs = append(mkdirs, p); return nil })
	sym.Intercept("os.Mkdir", func(p string, perm os.FileMode) error { mkdirs = append(mkdirs, p); return nil })
	sym.Intercept("syscall.Mknod", func(p string, mode uint32, dev int) error { mkdirs = append(mkdirs, "file:"+p); return nil })
	sym.Intercept("os.Remove", func(p string) error { removed = append(removed, p); return nil })
	sym.Intercept("os.Symlink", func(o, n string) error { symlinks = append(symlinks, n); return nil })
	sym.Intercept("syscall.Chdir", func(p string) error { return nil })
	sym.Intercept("syscall.PivotRoot", func(newroot, putold string) error {
		pivoted = newroot == "/newroot" && putold == "old_root"
		return nil
	})
	sym.Intercept("syscall.Unmount", func(t string, flags int) error {
		if t == "old_root" && flags&syscall.MNT_DETACH != 0 {
			detached = true
		}
		return nil
	})
	sym.Intercept("syscall.Statfs", func(p string, st *syscall.Statfs_t) error { st.Flags = int64(srcFlags); return nil })
	sym.Intercept("syscall.Mount", func(source, target, fstype string, flags uintptr, data string) error {
		if source == "/dev/null" {
			switch maskKind {
			case 1:
				return syscall.ENOTDIR
			case 2:
				return syscall.ENOENT
			}
		}
		calls = append(calls, mcall{source, target, fstype, flags, data})
		return nil
	})
	roBind, rwProc := sym.Bool("bind_readonly"), sym.Bool("proc_writable")
	// a hand-built bind entry (config loaders / WithMount): any flag word with MS_BIND
	handFlags := uintptr(sym.U64("hand_flags"))
	sym.Assume(handFlags&syscall.MS_BIND != 0)
	sym.Assume(handFlags&^(syscall.MS_BIND|syscall.MS_RDONLY|syscall.MS_NOSUID|syscall.MS_NODEV|syscall.MS_NOEXEC|syscall.MS_PRIVATE|syscall.MS_REC|syscall.MS_NOATIME) == 0)
	b := mount.NewBuilder().
		WithBind("/data/src", "data/in", roBind).
		WithBind("/missing", "gone", true).
		WithTmpfs("w", "size=1m").
		WithProcRW(rwProc).
		WithMount(mount.Mount{Source: "/data/src2", Target: "hand", Flags: handFlags}).
		FilterNotExist()
	conf := containerConfig{ContainerRoot: "/newroot", Mounts: b.Mounts, WorkDir: "/w",
		SymbolicLinks: []SymbolicLink{{LinkPath: "/dev/fd", Target: "/proc/self/fd"}}, MaskPaths: []string{"/proc/kcore"}}
	err := initFileSystem(conf)
	sym.Assert(err == nil, "the container file system must initialise")
	if err != nil {
		return
	}
	sym.Assert(len(b.Mounts) == 4, "a bind mount whose source does not exist must be filtered out")
	c05Oracle(calls, "data/in", roBind, true, srcFlags)
	c05Oracle(calls, "hand", handFlags&syscall.MS_RDONLY != 0, true, srcFlags)
	c05Oracle(calls, "w", false, false, 0)
	c05Oracle(calls, "proc", !rwProc, false, 0)
	sym.Assert(len(calls) > 0 && calls[0].target == "/newroot" && calls[0].fstype == "tmpfs", "the new root must be a fresh tmpfs")
	sym.Assert(pivoted && detached, "the old root must be pivoted away and detached (MNT_DETACH)")
	rm := false
	for _, p := range removed {
		if p == "old_root" {
			rm = true
		}
	}
	sym.Assert(rm, "the old root's mount point must be removed")
	last := calls[len(calls)-1]
	sym.Assert(last.target == "/" && last.flags&syscall.MS_REMOUNT != 0 && last.flags&syscall.MS_RDONLY != 0 && last.flags&syscall.MS_BIND != 0,
		"the last step must remount the root read-only")
	// masked path: covered by /dev/null, by an empty read-only tmpfs (directories), or absent
	covered := false
	for _, c := range calls {
		if c.target == "/proc/kcore" {
			if c.source == "/dev/null" && c.flags&syscall.MS_BIND != 0 {
				covered = true
			}
			if c.fstype == "tmpfs" && c.flags&syscall.MS_RDONLY != 0 {
				covered = true
			}
		}
	}
	switch maskKind {
	case 0:
		sym.Reach("mask-file")
		sym.Assert(covered, "a masked file must be covered by /dev/null")
	case 1:
		sym.Reach("mask-dir")
		sym.Assert(covered, "a masked directory must be covered by an empty read-only tmpfs")
	case 2:
		sym.Reach("mask-absent")
	}
	for _, d := range mkdirs {
		ok := d == "old_root" || d == "data" || d == "data/in" || d == "w" || d == "proc" || d == "file:data/in" || d == "/dev" || d == "hand"
		sym.Assert(ok, "an unexpected object was created in the new root: "+d)
	}
}
