package container

import (
	"syscall"
	"time"

	"github.com/criyle/go-sandbox/runner"
	"github.com/criyle/go-sandbox/zzverif/sym"
)

func refStatusOfSignal(sig int) runner.Status {
	switch sig {
	case 24, 9:
		return runner.StatusTimeLimitExceeded
	case 25:
		return runner.StatusOutputLimitExceeded
	case 31:
		return runner.StatusDisallowedSyscall
	}
	return runner.StatusSignalled
}

// VerifC09_ContainerReply: container-side convertReply composed with the host-side
// convertReplyResult, for every 32-bit wait status of a terminated program.
func VerifC09_ContainerReply() {
	ws := sym.U32("wstatus")
	low := ws & 0x7f
	sec, usec := sym.I64("ut_sec"), sym.I64("ut_usec")
	rss := sym.I64("maxrss")
	sym.Assume(sec >= 0 && sec < (1<<33) && usec >= 0 && usec < 1000000 && rss >= 0 && rss < (1<<53))
	ret := waitPidResult{WaitStatus: syscall.WaitStatus(ws)}
	ret.Rusage.Utime = syscall.Timeval{Sec: sec, Usec: usec}
	ret.Rusage.Maxrss = rss
	rep := convertReply(ret)
	var t0 time.Time
	res := convertReplyResult(rep, t0, t0, nil)
	terminated := ws&0xff != 0x7f && low != 0x7f
	if !terminated {
		// wait4 without WUNTRACED never reports these; whatever is reported must not be a fake verdict
		sym.Reach("not-terminated")
		sym.Assert(res.Status == runner.StatusRunnerError && res.Error != "", "an impossible wait status must be a Runner Error with text")
		return
	}
	sym.Assert(int64(res.Time) == sec*1000000000+usec*1000, "CPU time in ns")
	sym.Assert(uint64(res.Memory) == uint64(rss)<<10, "peak memory in bytes")
	if low == 0 {
		sym.Reach("exited")
		code := int((ws >> 8) & 0xff)
		if code == 0 {
			sym.Assert(res.Status == runner.StatusNormal, "exit 0 must be Normal")
		} else {
			sym.Assert(res.Status == runner.StatusNonzeroExitStatus, "non-zero exit must be Nonzero Exit Status")
		}
		sym.Assert(res.ExitStatus == code, "exit status must be the program's exit code")
	} else {
		sym.Reach("signaled")
		sig := int(low)
		sym.Assert(res.Status == refStatusOfSignal(sig), "terminating signal classified against the documented table")
		sym.Assert(res.ExitStatus == sig, "exit status must be the signal number")
	}
}

// VerifC09_ContainerReplyErrors: Runner Error is reported only for runner-side failures
// and always with a non-empty explanation.
func VerifC09_ContainerReplyErrors() {
	var t0 time.Time
	switch sym.Choose("mode", 4) {
	case 0: // wait4 failed inside the container
		rep := convertReply(waitPidResult{Err: syscall.Errno(sym.Uintptr("errno"))})
		res := convertReplyResult(rep, t0, t0, nil)
		sym.Reach("wait-error")
		sym.Assert(res.Status == runner.StatusRunnerError && res.Error != "", "wait4 failure must be a Runner Error with text")
	case 1: // transport error on the host
		res := convertReplyResult(reply{}, t0, t0, syscall.Errno(sym.Uintptr("errno")))
		sym.Reach("transport-error")
		sym.Assert(res.Status == runner.StatusRunnerError && res.Error != "", "transport failure must be a Runner Error with text")
	case 2: // reply without result
		res := convertReplyResult(reply{}, t0, t0, nil)
		sym.Reach("empty-reply")
		sym.Assert(res.Status == runner.StatusRunnerError && res.Error != "", "empty reply must be a Runner Error with text")
	case 3: // error reply
		res := convertReplyResult(reply{Error: &errorReply{Msg: "execve: start: x"}}, t0, t0, nil)
		sym.Reach("error-reply")
		sym.Assert(res.Status == runner.StatusRunnerError && res.Error != "", "error reply must be a Runner Error with text")
	}
}
