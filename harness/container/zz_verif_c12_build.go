package container

import (
	"errors"
	"io/fs"
	"os"
	"syscall"

	"github.com/criyle/go-sandbox/pkg/mount"
	"github.com/criyle/go-sandbox/zzverif/sym"
)

// VerifC12_BuildFailure: the real Builder.Build over the link model: the container init is
// started (modelled), answers the ping, and then any later step may fail - creating the
// temporary root, reading the work directory, the configuration command (container-side
// failure or transport loss).  Whenever Build returns an error the caller gets no handle, so
// Build itself must have destroyed what it started: init killed and reaped, socket closed.
func VerifC12_BuildFailure() {
	w := newWorld()
	g := &destroyGhost{}
	w.installDestroy(g)
	started := false
	sym.Intercept("(*github.com/criyle/go-sandbox/container.Builder).startContainer", func(b *Builder) (*container, error) {
		if sym.Bool("start_fails") {
			return nil, errors.New("container: failed to start container")
		}
		started = true
		return w.host, nil
	})
	sym.Intercept("os.MkdirTemp", func(dir, pattern string) (string, error) {
		if sym.Bool("mkdirtemp_fails") {
			return "", &fs.PathError{Op: "mkdirtemp", Path: dir, Err: syscall.EACCES}
		}
		return dir + "/tmp123", nil
	})
	sym.Intercept("os.Getwd", func() (string, error) {
		if sym.Bool("getwd_fails") {
			return "", syscall.ENOENT
		}
		return "/cwd", nil
	})
	sym.Intercept("os.Remove", func(p string) error { return nil })
	// container side of the configuration command: setting up the file system works or fails
	sym.Intercept("github.com/criyle/go-sandbox/container.initContainer", func(c containerConfig) error {
		if sym.Bool("init_container_fails") {
			return errors.New("init_fs: mount failed")
		}
		return nil
	})
	sym.Intercept("github.com/criyle/go-sandbox/container.readDotEnv", func() ([]string, error) { return nil, nil })
	w.breakLeft = sym.Choose("transport_may_break", 2)
	b := &Builder{Mounts: []mount.Mount{{Source: "tmpfs", Target: "w", FsType: "tmpfs"}}}
	switch sym.Choose("root_mode", 3) {
	case 0: // work directory of the host
	case 1:
		b.Root = "/roots"
	case 2:
		b.Root, b.TmpRoot = "/roots", "env-*"
	}
	env, err := b.Build()
	sym.WaitOthers()
	if err != nil {
		sym.Reach("build-failed")
		sym.Assert(env == nil, "a failed Build must not return an environment")
		if started {
			sym.Reach("failed-after-start")
			sym.Assert(g.killCalls >= 1 && g.waitCalls >= 1, "Build failed after the container init was started and left it running (nobody holds a handle to destroy it)")
			sym.Assert(w.l.closed[0], "Build failed and left the control socket open")
		}
		return
	}
	sym.Reach("built")
	sym.Assert(env != nil && started && g.killCalls == 0, "a successful Build returns a live environment")
	var _ = os.ErrNotExist
}
