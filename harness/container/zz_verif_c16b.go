package container

import (
	"net"
	"os"
	"os/exec"
	"syscall"

	"github.com/criyle/go-sandbox/pkg/forkexec"
	"github.com/criyle/go-sandbox/pkg/unixsocket"
	"github.com/criyle/go-sandbox/zzverif/sym"
)

type fixedCred struct{}

func (fixedCred) Get() syscall.Credential { return syscall.Credential{Uid: 10001, Gid: 10001} }

// VerifC16_InitAttrs: for every CloneFlags word and with/without a credential generator the
// container init is started with the parent-death signal SIGKILL and in a new pid namespace
// whenever the caller left the flags at their default or asked for one.
func VerifC16_InitAttrs() {
	b := &Builder{CloneFlags: sym.Uintptr("cloneflags")}
	if sym.Bool("credgen") {
		b.CredGenerator = fixedCred{}
	}
	var captured *exec.Cmd
	sym.Intercept("github.com/criyle/go-sandbox/container.newPassCredSocketPair", func() (*unixsocket.Socket, *unixsocket.Socket, error) {
		return &unixsocket.Socket{UnixConn: &net.UnixConn{}}, &unixsocket.Socket{UnixConn: &net.UnixConn{}}, nil
	})
	sym.Intercept("(*net.UnixConn).File", func(c unsafePtr) (*os.File, error) { return new(os.File), nil })
	sym.Intercept("(*net.conn).File", func(c unsafePtr) (*os.File, error) { return new(os.File), nil })
	sym.Intercept("(*github.com/criyle/go-sandbox/pkg/unixsocket.Socket).Close", func(u *unixsocket.Socket) error { return nil })
	sym.Intercept("(*os.File).Close", func(f *os.File) error { return nil })
	sym.Intercept("os.Geteuid", func() int { return 0 })
	sym.Intercept("os.Getegid", func() int { return 0 })
	sym.Intercept("(*os/exec.Cmd).Start", func(c *exec.Cmd) error { captured = c; return nil })
	sym.Intercept("github.com/criyle/go-sandbox/container.newSocket", func(s *unixsocket.Socket) *socket { return &socket{Socket: s} })
	sym.Intercept("(*github.com/criyle/go-sandbox/container.container).sendLoop", func(c *container) {})
	sym.Intercept("(*github.com/criyle/go-sandbox/container.container).recvLoop", func(c *container) {})
	_, err := b.startContainer()
	sym.Assert(err == nil && captured != nil && captured.SysProcAttr != nil, "the init process must be started")
	if captured == nil || captured.SysProcAttr == nil {
		return
	}
	a := captured.SysProcAttr
	sym.Assert(a.Pdeathsig == syscall.SIGKILL, "the container init must get SIGKILL when its parent dies")
	if b.CloneFlags == 0 || b.CloneFlags&syscall.CLONE_NEWPID != 0 {
		sym.Reach("wants-pidns")
		sym.Assert(a.Cloneflags&syscall.CLONE_NEWPID != 0, "the container init must be pid 1 of a new pid namespace")
	}
	if b.CloneFlags == 0 {
		sym.Reach("default-flags")
		sym.Assert(a.Cloneflags == forkexec.UnshareFlags, "default clone flags must unshare every namespace")
	}
	sym.Assert(a.Cloneflags&^uintptr(forkexec.UnshareFlags) == 0, "only namespace flags may reach clone")
	sym.Assert(len(captured.ExtraFiles) == 1, "exactly the control socket is handed to the init process")
}

type unsafePtr = *struct{}
