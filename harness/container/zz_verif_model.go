package container

// Shared model for the container protocol harnesses (C10, C11, C12, C14, C16):
// both real endpoints (host `container`, init `containerServer`) are built directly and
// joined by a model SEQPACKET link with descriptor passing; the file system calls of the
// command handlers and the launcher are stubs with solver-chosen outcomes.

import (
	"errors"
	"fmt"
	"io"
	"io/fs"
	"net"
	"os"
	"syscall"
	"time"
	"unsafe"

	"github.com/criyle/go-sandbox/pkg/forkexec"
	"github.com/criyle/go-sandbox/pkg/mount"
	"github.com/criyle/go-sandbox/pkg/unixsocket"
	"github.com/criyle/go-sandbox/zzverif/kern"
	"github.com/criyle/go-sandbox/zzverif/sym"
)

const (
	pidHost = 0    // interpreter threads of the host process
	pidInit = 2000 // interpreter threads of the container init
)

// ---------------------------------------------------------------- transport

type packet struct {
	val   any
	cred  *syscall.Ucred
	files []*kern.FileObj
	seq   int // ghost: sequence number of the command being handled when the packet was produced
}

type link struct {
	q      [2][]packet // q[side] = packets waiting to be received by side
	closed [2]bool     // side closed its end
	broken bool        // transport lost
}

type endpoint struct {
	l    *link
	side int
	proc *kern.Proc
	next int // next descriptor number handed out on receive
}

type world struct {
	k         *kern.Kernel
	l         *link
	host      *container
	init      *containerServer
	hostEP    *endpoint
	initEP    *endpoint
	initProc  *kern.Proc
	eps       map[*unixsocket.Socket]*endpoint
	files     map[*os.File]*mfile
	breakLeft int
	// ghost protocol state
	lastReplySeq     int
	pathKind         map[string]int
	openedPaths      []string
	doubleClose      int
	lastRemoveFailed bool
	badClose         int
	cmdSeq           int // number of top-level commands sent by the host
	handling         int // sequence number of the command the container is handling
	serveErr         error
	serveDone        bool
	initExited       bool
	killAllSent      int
	// abstract program
	prog          *program
	mayRunForever bool
	crashArmed    bool
	crashed       bool
	cancelFn      func()
	cancelFired   bool
	startMode     int
	// handler stubs
	openOutcome func(path string) int
	// socket deadline of the host end (Ping)
	openCalls    []OpenCmd // ghost: every os.OpenFile the container issued
	mkdirCalls   []string  // ghost: every os.MkdirAll the container issued
	quietFS      bool      // file-system stubs never fail (harnesses that are not about failures)
	onlyRun      bool      // launches always succeed (harnesses that are not about launch failures)
	recordLaunch bool      // keep what the container handed to the launcher, per launch
	launches     []launchRec
	multiProc    bool      // the program may consist of two processes
	hostConn     unsafe.Pointer
	hostDeadline bool
	deadlineGen  int
	declinedGen  int
}

type mfile struct {
	fd     int
	proc   *kern.Proc
	closed int
	path   string
}

var W *world

func (w *world) ep(s *socket) *endpoint { return w.eps[s.Socket] }

var errBroken = errors.New("model: transport lost")

// what the framed layer reports when the peer closed its end: the decoder's io.EOF, wrapped
var errEOF error = errors.New("recv msg: decode: EOF")

// what Go's net package reports for I/O on a connection this process has closed itself
var errClosed error

func initErrClosed() {
	if net.ErrClosed == nil {
		// package net is not initialised in the interpreter (no real network I/O happens)
		net.ErrClosed = errors.New("use of closed network connection")
	}
	errClosed = &net.OpError{Op: "read", Net: "unixpacket", Err: net.ErrClosed}
	if io.EOF == nil {
		io.EOF = errors.New("EOF")
	}
	errEOF = fmt.Errorf("recv msg: decode: %w", io.EOF)
	if os.ErrDeadlineExceeded == nil {
		os.ErrDeadlineExceeded = errors.New("i/o timeout")
	}
}

// maybeCrash: C16 - the controlling process may be SIGKILLed at any of its visible
// operations: all its threads vanish, its socket end closes.
func (w *world) maybeCrash(ep *endpoint) {
	if w.crashArmed && !w.crashed && ep.side == 0 && sym.Bool("controller_crashes_here") {
		w.crashed = true
		w.l.closed[0] = true
		sym.Reach("controller-killed")
		sym.KillPid(pidControllerModel)
		sym.ExitThread(137)
	}
}

// maybeCancel: C11 - the caller's context may be cancelled at any transport event of either
// side (this places the cancellation instant without spending the schedule budget).
func (w *world) maybeCancel() {
	if w.cancelFn != nil && !w.cancelFired && sym.Bool("cancel_here") {
		w.cancelFired = true
		sym.Reach("cancel-injected")
		w.cancelFn()
	}
}

const pidControllerModel = 1000

func (w *world) maybeBreak() {
	if w.breakLeft > 0 && !w.l.broken && sym.Bool("transport_breaks") {
		w.breakLeft--
		w.l.broken = true
		sym.Reach("transport-lost")
	}
}

func modelSend(s *socket, e any, msg unixsocket.Msg) error {
	w := W
	ep := w.ep(s)
	sym.Yield()
	w.maybeCrash(ep)
	w.maybeCancel()
	w.maybeBreak()
	if ep.l.closed[ep.side] {
		return errClosed
	}
	if ep.l.broken {
		return errBroken
	}
	if ep.l.closed[1-ep.side] {
		return syscall.EPIPE
	}
	p := packet{cred: msg.Cred, seq: w.handling}
	switch v := e.(type) {
	case cmd:
		p.val = v
	case reply:
		p.val = v
	case *cmd:
		p.val = *v
	case *reply:
		p.val = *v
	default:
		sym.Assert(false, "model: unexpected message type on the control socket")
	}
	for _, fd := range msg.Fds {
		ent := ep.proc.Fds[fd]
		if ent == nil {
			return syscall.EBADF
		}
		p.files = append(p.files, ent.File)
	}
	ep.l.q[1-ep.side] = append(ep.l.q[1-ep.side], p)
	return nil
}

func modelRecv(s *socket, e any) (unixsocket.Msg, error) {
	w := W
	ep := w.ep(s)
	var msg unixsocket.Msg
	sym.Yield()
	w.maybeCrash(ep)
	l := ep.l
	expiring := func() bool {
		pr := w.prog
		return ep.side == 0 && w.hostDeadline && w.declinedGen != w.deadlineGen && pr != nil && pr.started && !pr.ended
	}
	for {
		sym.WaitUntil(func() bool {
			return len(l.q[ep.side]) > 0 || l.closed[1-ep.side] || l.closed[ep.side] || l.broken || expiring()
		})
		if len(l.q[ep.side]) == 0 && !l.closed[1-ep.side] && !l.closed[ep.side] && !l.broken && expiring() {
			if sym.Bool("deadline_expires") {
				sym.Reach("deadline-expired")
				return msg, &net.OpError{Op: "read", Net: "unixpacket", Err: os.ErrDeadlineExceeded}
			}
			w.declinedGen = w.deadlineGen
			continue
		}
		break
	}
	if l.closed[ep.side] {
		return msg, errClosed
	}
	if l.broken {
		return msg, errBroken
	}
	if len(l.q[ep.side]) == 0 {
		return msg, errEOF
	}
	p := l.q[ep.side][0]
	l.q[ep.side] = l.q[ep.side][1:]
	switch dst := e.(type) {
	case *cmd:
		v, ok := p.val.(cmd)
		sym.Assert(ok, "model: container received something that is not a command")
		gobMergeCmd(dst, v)
	case *reply:
		v, ok := p.val.(reply)
		sym.Assert(ok, "model: host received something that is not a reply")
		gobMergeReply(dst, v)
		w.lastReplySeq = p.seq
	}
	w.maybeCrash(ep)
	w.maybeCancel()
	msg.Cred = p.cred
	for _, f := range p.files {
		ep.next++
		ep.proc.OpenAt(ep.next, f, true) // MSG_CMSG_CLOEXEC
		msg.Fds = append(msg.Fds, ep.next)
	}
	return msg, nil
}

// gob decodes INTO the destination: fields whose value is the zero value are not transmitted
// and keep whatever the destination held; pointers are allocated only when nil; a slice with
// enough capacity is reused element by element.  (With a fresh zero destination per message,
// as the real loops use, this is plain assignment.)
func gobMergeCmd(dst *cmd, v cmd) {
	if v.DeleteCmd != nil {
		if dst.DeleteCmd == nil {
			dst.DeleteCmd = &deleteCmd{}
		}
		if v.DeleteCmd.Path != "" {
			dst.DeleteCmd.Path = v.DeleteCmd.Path
		}
	}
	if v.ExecCmd != nil {
		if dst.ExecCmd == nil {
			dst.ExecCmd = &execCmd{}
		}
		e, d := v.ExecCmd, dst.ExecCmd
		if len(e.Argv) > 0 {
			d.Argv = e.Argv
		}
		if len(e.Env) > 0 {
			d.Env = e.Env
		}
		if len(e.RLimits) > 0 {
			d.RLimits = e.RLimits
		}
		if len(e.Seccomp) > 0 {
			d.Seccomp = e.Seccomp
		}
		d.FdExec = d.FdExec || e.FdExec
		d.FdCgroup = d.FdCgroup || e.FdCgroup
		d.CTTY = d.CTTY || e.CTTY
		d.SyncAfter = d.SyncAfter || e.SyncAfter
	}
	if v.ConfCmd != nil {
		c := *v.ConfCmd
		dst.ConfCmd = &c
	}
	if n := len(v.OpenCmd); n > 0 {
		if cap(dst.OpenCmd) >= n {
			dst.OpenCmd = dst.OpenCmd[:n]
		} else {
			dst.OpenCmd = make([]OpenCmd, n)
		}
		for k, o := range v.OpenCmd {
			d := &dst.OpenCmd[k]
			if o.Path != "" {
				d.Path = o.Path
			}
			if o.Flag != 0 {
				d.Flag = o.Flag
			}
			if o.Perm != 0 {
				d.Perm = o.Perm
			}
			d.MkdirAll = d.MkdirAll || o.MkdirAll
		}
	}
	if n := len(v.SymlinkCmd); n > 0 {
		if cap(dst.SymlinkCmd) >= n {
			dst.SymlinkCmd = dst.SymlinkCmd[:n]
		} else {
			dst.SymlinkCmd = make([]SymbolicLink, n)
		}
		for k, o := range v.SymlinkCmd {
			d := &dst.SymlinkCmd[k]
			if o.LinkPath != "" {
				d.LinkPath = o.LinkPath
			}
			if o.Target != "" {
				d.Target = o.Target
			}
		}
	}
	if v.Cmd != dst.Cmd && v.Cmd != *new(cmdType) {
		dst.Cmd = v.Cmd
	}
}

func gobMergeReply(dst *reply, v reply) {
	if v.Error != nil {
		if dst.Error == nil {
			dst.Error = &errorReply{}
		}
		if v.Error.Errno != nil {
			dst.Error.Errno = v.Error.Errno
		}
		if v.Error.Msg != "" {
			dst.Error.Msg = v.Error.Msg
		}
	}
	if v.ExecReply != nil {
		if dst.ExecReply == nil {
			dst.ExecReply = &execReply{}
		}
		e, d := v.ExecReply, dst.ExecReply
		if e.ExitStatus != 0 {
			d.ExitStatus = e.ExitStatus
		}
		if e.Status != 0 {
			d.Status = e.Status
		}
		if e.Time != 0 {
			d.Time = e.Time
		}
		if e.Memory != 0 {
			d.Memory = e.Memory
		}
	}
	if len(v.BatchErrors) > 0 {
		dst.BatchErrors = v.BatchErrors
	}
}

func modelSockClose(u *unixsocket.Socket) error {
	w := W
	ep := w.eps[u]
	sym.Yield()
	if ep == nil {
		return nil
	}
	ep.l.closed[ep.side] = true
	return nil
}

// ---------------------------------------------------------------- abstract program inside the container

type program struct {
	pid      int
	started  bool
	ended    bool
	reaped   bool
	status   uint32 // wait status once ended
	killed   bool
	selfEnds bool // ends by itself at a scheduler-chosen instant
	// another process of the program (a child it forked): lives until kill(-1), then stays a
	// zombie of init until wait4(-1) reaps it
	second       bool
	secondDead   bool
	secondReaped bool
}

// launchRec: what the container init passed to forkexec.Runner for one launch.
type launchRec struct {
	args, env      []string
	nRLimits       int
	filter         bool
	syncBeforeExec bool
	ctty           bool
	execFile       bool
}

// Start modes of the abstract launcher (forkexec.Runner.Start replaced by its C07 contract).
const (
	startFailsEarly  = iota // fails before sync (lookup, clone, child step): error, callback never runs
	startSyncThenRun        // sync, then exec succeeds, program runs
	startExecFails          // sync acknowledged, then exec fails: error AFTER the callback returned nil
	startModes
)

// The launcher below the real forkexec.Runner.Start is replaced by its C07 contract:
// forkAndExecInChild "clones" (or fails), syncWithChild runs the sync gate and reports what
// the abstract child did.  prepareExec and the rest of Start are the real code.
func (w *world) modelFork(r *forkexec.Runner, argv0 *byte, argv, env []*byte, workdir, hostname, domainname, pivotRoot *byte, p [2]int) (uintptr, syscall.Errno) {
	syscall.ForkLock.Lock() // released by the real Start
	if w.recordLaunch {
		w.launches = append(w.launches, launchRec{args: append([]string(nil), r.Args...), env: append([]string(nil), r.Env...),
			nRLimits: len(r.RLimits), filter: r.Seccomp != nil, syncBeforeExec: r.SyncFunc != nil, ctty: r.CTTY, execFile: r.ExecFile != 0})
	}
	sym.Yield()
	if w.onlyRun {
		w.startMode = startSyncThenRun
		return 77, 0
	}
	w.startMode = sym.Choose("start_mode", startModes)
	if w.startMode == startFailsEarly && sym.Bool("clone_fails") {
		return 0, syscall.EAGAIN
	}
	return 77, 0
}

func (w *world) modelSync(r *forkexec.Runner, p [2]int, pid int, err1 syscall.Errno) (int, error) {
	if err1 != 0 {
		sym.Reach("clone-fails")
		return 0, forkexec.ChildError{Location: forkexec.LocClone, Err: err1}
	}
	mode := w.startMode
	if mode == startFailsEarly {
		sym.Reach("start-fails-early")
		return 0, forkexec.ChildError{Location: forkexec.LocSetRlimit, Err: syscall.EINVAL, Index: 1}
	}
	if r.SyncFunc != nil {
		if err := r.SyncFunc(pid); err != nil {
			sym.Reach("sync-refused")
			return 0, err
		}
	}
	if mode == startExecFails {
		sym.Reach("exec-fails-after-sync")
		return 0, forkexec.ChildError{Location: forkexec.LocExecve, Err: syscall.ENOEXEC}
	}
	sym.Reach("program-runs")
	pr := &program{pid: pid, started: true, status: sym.U32("prog_status")}
	low := pr.status & 0x7f
	sym.Assume(pr.status&0xff != 0x7f)
	sym.Assume(low != 0x7f)
	sym.Assume(pr.status>>16 == 0)
	pr.second = w.multiProc && sym.Bool("program_has_second_process")
	pr.selfEnds = true
	if w.mayRunForever {
		// only when the harness cancels the run: the program may run until it is killed
		pr.selfEnds = sym.Bool("prog_ends_by_itself")
	}
	w.prog = pr
	if pr.selfEnds {
		go func() {
			sym.Yield()
			if !pr.ended {
				pr.ended = true
			}
		}()
	}
	return pid, nil
}

func (w *world) modelKill(pid int, sig syscall.Signal) error {
	sym.Yield()
	if pid == -1 && sig == syscall.SIGKILL {
		w.killAllSent++
		if p := w.prog; p != nil && p.started && !p.ended {
			p.ended = true
			p.killed = true
			p.status = 9
		}
		if p := w.prog; p != nil && p.second {
			p.secondDead = true
		}
		return nil
	}
	return syscall.ESRCH
}

func (w *world) modelWait4(pid int, ws *syscall.WaitStatus, options int, ru *syscall.Rusage) (int, error) {
	sym.Yield()
	p := w.prog
	if pid == -1 {
		if p == nil || !p.started {
			return -1, syscall.ECHILD
		}
		for {
			if p.second && p.secondDead && !p.secondReaped {
				p.secondReaped = true
				return p.pid + 1, nil
			}
			if !p.reaped && p.ended {
				p.reaped = true
				return p.pid, nil
			}
			if p.reaped && (!p.second || p.secondReaped) {
				return -1, syscall.ECHILD
			}
			// children exist but none has died yet: wait4 blocks
			sym.WaitUntil(func() bool { return (!p.reaped && p.ended) || (p.second && p.secondDead && !p.secondReaped) })
		}
	}
	if p == nil || p.pid != pid || p.reaped {
		return -1, syscall.ECHILD
	}
	sym.WaitUntil(func() bool { return p.ended })
	p.reaped = true
	if ws != nil {
		*ws = syscall.WaitStatus(p.status)
	}
	if ru != nil {
		*ru = syscall.Rusage{}
	}
	return pid, nil
}

// ---------------------------------------------------------------- world construction

func newWorld() *world {
	kern.InstallContext()
	initErrClosed()
	k := kern.NewKernel()
	kern.K = k
	w := &world{k: k, l: &link{}, eps: map[*unixsocket.Socket]*endpoint{}, files: map[*os.File]*mfile{}}
	W = w
	w.initProc = &kern.Proc{Pid: pidInit, Fds: map[int]*kern.FDEnt{}}
	k.Procs[pidInit] = w.initProc
	hostSock := &socket{Socket: &unixsocket.Socket{UnixConn: &net.UnixConn{}}}
	initSock := &socket{Socket: &unixsocket.Socket{UnixConn: &net.UnixConn{}}}
	w.hostEP = &endpoint{l: w.l, side: 0, proc: k.Host(), next: 100}
	w.initEP = &endpoint{l: w.l, side: 1, proc: w.initProc, next: 10}
	w.eps[hostSock.Socket] = w.hostEP
	w.eps[initSock.Socket] = w.initEP

	P := "(*github.com/criyle/go-sandbox/container.socket)."
	sym.Intercept(P+"SendMsg", modelSend)
	sym.Intercept(P+"RecvMsg", modelRecv)
	sym.Intercept("(*github.com/criyle/go-sandbox/pkg/unixsocket.Socket).Close", modelSockClose)
	// promoted (*net.conn).Close as called by Destroy (the compiler selects the embedded conn directly)
	hostConn, initConn := sym.InnerPtr(hostSock.Socket.UnixConn), sym.InnerPtr(initSock.Socket.UnixConn)
	w.hostConn = hostConn
	sym.Intercept("(*net.conn).Close", func(c unsafe.Pointer) error {
		switch c {
		case hostConn:
			return modelSockClose(hostSock.Socket)
		case initConn:
			return modelSockClose(initSock.Socket)
		}
		sym.Assert(false, "model: Close of an unknown connection")
		return nil
	})
	sym.Intercept("(*net.conn).SetDeadline", func(c unsafe.Pointer, t time.Time) error {
		// Go net: a deadline covers pending and future I/O of the connection.  The only unbounded
		// duration of the model is a running program, so an armed deadline can only expire while
		// the side waits for a program to end (see modelRecv).
		if c == w.hostConn {
			w.hostDeadline = !t.IsZero()
			if w.hostDeadline {
				w.deadlineGen++
			}
		}
		return nil
	})
	sym.Intercept("github.com/criyle/go-sandbox/pkg/forkexec.forkAndExecInChild", w.modelFork)
	sym.Intercept("github.com/criyle/go-sandbox/pkg/forkexec.syncWithChild", w.modelSync)
	sym.Intercept("syscall.Socketpair", func(domain, typ, proto int) ([2]int, error) { return [2]int{90, 91}, nil })
	sym.Intercept("syscall.Kill", w.modelKill)
	sym.Intercept("syscall.Wait4", w.modelWait4)
	sym.Intercept("syscall.Getuid", func() int { return 0 })
	sym.Intercept("syscall.Getgid", func() int { return 0 })
	sym.Intercept("github.com/criyle/go-sandbox/container.lookPath", func(name string, env []string) (string, error) {
		if !w.onlyRun && sym.Bool("lookup_fails") {
			sym.Reach("lookup-fails")
			return "", &fs.PathError{Op: "lookpath", Path: name, Err: syscall.ENOENT}
		}
		return name, nil
	})
	w.installFileStubs()

	// host endpoint, as startContainer builds it
	w.host = &container{
		socket: hostSock,
		recvCh: make(chan recvReply, 1),
		sendCh: make(chan sendCmd, 1),
		done:   make(chan struct{}),
	}
	go w.host.sendLoop()
	go w.host.recvLoop()

	// container init endpoint, as Init builds it (threads belong to the init process)
	cs := &containerServer{
		socket:        initSock,
		done:          make(chan struct{}),
		sendCh:        make(chan sendReply, 1),
		recvCh:        make(chan recvCmd, 1),
		waitPid:       make(chan int),
		waitAll:       make(chan struct{}),
		waitPidResult: make(chan waitPidResult, 1),
		waitAllDone:   make(chan struct{}, 1),
	}
	cs.containerConfig.WorkDir = "/w"
	cs.containerConfig.Mounts = []mount.Mount{{Source: "tmpfs", Target: "w", FsType: "tmpfs"}}
	w.init = cs
	prevPid := sym.Pid()
	sym.SetPid(pidInit) // threads inherit the model process of their creator
	go func() {
		go cs.sendLoop()
		go cs.recvLoop()
		go cs.waitLoop()
		w.serveErr = w.serveLoop(cs)
		w.serveDone = true
		// Init's deferred os.Exit: the init process ends, which closes its socket end
		w.initExited = true
		w.l.closed[1] = true
	}()
	sym.SetPid(prevPid)
	return w
}

// serveLoop is containerServer.serve with ghost bookkeeping of which command is handled.
func (w *world) serveLoop(c *containerServer) error {
	for {
		cm, msg, err := c.recvCmd()
		if err != nil {
			return err
		}
		w.handling++
		if err := c.handleCmd(cm, msg); err != nil {
			return err
		}
	}
}

// ---------------------------------------------------------------- file-system stubs for the handlers

const (
	objAbsent = iota
	objRegular
	objDir
	objSymlink
	objFifo
	objSocket
	objDevice
	objLstatError
	objKinds
)

type fakeInfo struct{ mode os.FileMode }

func (f fakeInfo) Name() string       { return "x" }
func (f fakeInfo) Size() int64        { return 0 }
func (f fakeInfo) Mode() os.FileMode  { return f.mode }
func (f fakeInfo) ModTime() time.Time { return time.Time{} }
func (f fakeInfo) IsDir() bool        { return f.mode.IsDir() }
func (f fakeInfo) Sys() any           { return nil }

func (w *world) curProc() *kern.Proc {
	if sym.Pid() == pidInit {
		return w.initProc
	}
	return w.k.Host()
}

func (w *world) kindOf(path string) int {
	if w.pathKind == nil {
		w.pathKind = map[string]int{}
	}
	if k, ok := w.pathKind[path]; ok {
		return k
	}
	k := sym.Choose("kind", objKinds)
	w.pathKind[path] = k
	return k
}

func (w *world) installFileStubs() {
	sym.Intercept("os.MkdirAll", func(path string, perm os.FileMode) error {
		w.mkdirCalls = append(w.mkdirCalls, path)
		if !w.quietFS && sym.Bool("mkdirall_fails") {
			return &fs.PathError{Op: "mkdir", Path: path, Err: syscall.EACCES}
		}
		return nil
	})
	sym.Intercept("os.Lstat", func(path string) (os.FileInfo, error) {
		switch w.kindOf(path) {
		case objAbsent:
			return nil, &fs.PathError{Op: "lstat", Path: path, Err: syscall.ENOENT}
		case objLstatError:
			return nil, &fs.PathError{Op: "lstat", Path: path, Err: syscall.EACCES}
		case objRegular:
			return fakeInfo{0644}, nil
		case objDir:
			return fakeInfo{os.ModeDir | 0755}, nil
		case objSymlink:
			return fakeInfo{os.ModeSymlink | 0777}, nil
		case objFifo:
			return fakeInfo{os.ModeNamedPipe | 0644}, nil
		case objSocket:
			return fakeInfo{os.ModeSocket | 0644}, nil
		}
		return fakeInfo{os.ModeDevice | os.ModeCharDevice | 0644}, nil
	})
	sym.Intercept("os.Stat", func(path string) (os.FileInfo, error) {
		// following the link: a planted symlink looks like whatever it points to (a regular file here)
		switch w.kindOf(path) {
		case objAbsent:
			return nil, &fs.PathError{Op: "stat", Path: path, Err: syscall.ENOENT}
		case objDir:
			return fakeInfo{os.ModeDir | 0755}, nil
		}
		return fakeInfo{0644}, nil
	})
	sym.Intercept("os.OpenFile", func(path string, flag int, perm os.FileMode) (*os.File, error) {
		k := w.kindOf(path)
		w.openedPaths = append(w.openedPaths, path)
		w.openCalls = append(w.openCalls, OpenCmd{Path: path, Flag: flag, Perm: perm})
		sym.Assert(k == objAbsent || k == objRegular, "OpenFile reached for an object that is neither a regular file nor absent (planted symlink / FIFO / socket / device / directory)")
		if !w.quietFS && sym.Bool("openfile_fails") {
			return nil, &fs.PathError{Op: "open", Path: path, Err: syscall.EACCES}
		}
		pr := w.curProc()
		fd := 30 + len(w.files)
		f := new(os.File)
		pr.OpenAt(fd, w.k.NewFile(path), true)
		w.files[f] = &mfile{fd: fd, proc: pr, path: path}
		return f, nil
	})
	sym.Intercept("os.NewFile", func(fd uintptr, name string) *os.File {
		f := new(os.File)
		w.files[f] = &mfile{fd: int(fd), proc: w.curProc(), path: name}
		return f
	})
	sym.Intercept("(*os.File).Fd", func(f *os.File) uintptr { return uintptr(w.files[f].fd) })
	sym.Intercept("(*os.File).Close", func(f *os.File) error {
		m := w.files[f]
		if m == nil {
			return syscall.EINVAL
		}
		m.closed++
		if m.closed > 1 {
			w.doubleClose++
			return os.ErrClosed
		}
		if m.fd < 0 {
			return nil // a directory handle of the model
		}
		if m.proc.Fds[m.fd] == nil {
			w.badClose++
			return syscall.EBADF
		}
		ent := m.proc.Fds[m.fd]
		delete(m.proc.Fds, m.fd)
		_ = ent
		return nil
	})
	sym.Intercept("os.Open", func(name string) (*os.File, error) {
		if !w.quietFS && sym.Bool("opendir_fails") {
			return nil, &fs.PathError{Op: "open", Path: name, Err: syscall.EACCES}
		}
		f := new(os.File)
		w.files[f] = &mfile{fd: -1, proc: w.curProc(), path: name}
		return f, nil
	})
	sym.Intercept("(*os.File).Readdirnames", func(f *os.File, n int) ([]string, error) {
		return []string{"leftover"}, nil
	})
	sym.Intercept("os.Symlink", func(oldname, newname string) error {
		if !w.quietFS && sym.Bool("symlink_fails") {
			return &os.LinkError{Op: "symlink", Old: oldname, New: newname, Err: syscall.EEXIST}
		}
		return nil
	})
	sym.Intercept("os.Remove", func(name string) error {
		if !w.quietFS && sym.Bool("remove_fails") {
			w.lastRemoveFailed = true
			return &fs.PathError{Op: "remove", Path: name, Err: syscall.ENOENT}
		}
		return nil
	})
	sym.Intercept("os.RemoveAll", func(name string) error {
		if !w.quietFS && sym.Bool("removeall_fails") {
			return &fs.PathError{Op: "removeall", Path: name, Err: syscall.EACCES}
		}
		return nil
	})
	sym.Intercept("syscall.CloseOnExec", func(fd int) {
		if ent := w.curProc().Fds[fd]; ent != nil {
			ent.Cloexec = true
		}
	})
	sym.Intercept("syscall.Close", func(fd int) error {
		pr := w.curProc()
		if pr.Fds[fd] == nil {
			w.badClose++
			return syscall.EBADF
		}
		delete(pr.Fds, fd)
		return nil
	})
}
