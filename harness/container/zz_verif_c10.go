package container

import (
	"context"
	"errors"
	"syscall"

	"github.com/criyle/go-sandbox/pkg/rlimit"
	"github.com/criyle/go-sandbox/pkg/seccomp"
	"github.com/criyle/go-sandbox/runner"
	"github.com/criyle/go-sandbox/zzverif/kern"
	"github.com/criyle/go-sandbox/zzverif/sym"
)

const (
	opPing = iota
	opOpen
	opDelete
	opSymlink
	opReset
	opExecve
	opKinds
)

// doOp performs one environment operation on the host endpoint and checks that the answer
// it consumed was produced by the container while handling this very command.
func (w *world) doOp(op int, k int, allowCancel bool) (failed bool) {
	c := w.host
	before := w.handling
	switch op {
	case opPing:
		err := c.Ping()
		failed = err != nil
	case opOpen:
		res, err := c.Open([]OpenCmd{{Path: "/w/a", Flag: 0}})
		failed = err != nil
		if err == nil {
			sym.Assert(len(res) == 1, "Open must return one result per item")
		}
	case opDelete:
		w.lastRemoveFailed = false
		failed = c.Delete("/w/a") != nil
		if !w.l.broken {
			sym.Assert(failed == w.lastRemoveFailed, "Delete must report exactly the outcome of its own removal")
		}
	case opSymlink:
		res, err := c.Symlink([]SymbolicLink{{LinkPath: "/w/l", Target: "/w/a"}})
		failed = err != nil
		if err == nil {
			sym.Assert(len(res) == 1, "Symlink must return one result per item")
		}
	case opReset:
		failed = c.Reset() != nil
	case opExecve:
		p := ExecveParam{Args: []string{"/bin/prog"}, Env: []string{"A=1"}}
		if sym.Bool("empty_args") {
			p.Args = nil
		}
		refuses := false
		switch sym.Choose("syncfunc", 3) {
		case 1:
			p.SyncFunc = func(pid int) error { return nil }
		case 2:
			refuses = true
			p.SyncFunc = func(pid int) error { return errors.New("sync refused") }
		}
		p.SyncAfterExec = sym.Bool("sync_after_exec")
		ctx, cancel := kern.WithCancel(kern.Background())
		w.mayRunForever = false
		w.cancelFn, w.cancelFired = nil, false
		if allowCancel && sym.Bool("cancel") {
			w.mayRunForever = true
			switch sym.Choose("cancel_how", 3) {
			case 0: // already cancelled when Execve is called
				cancel()
			case 1: // a free-running canceller thread
				go func() {
					sym.Yield()
					cancel()
				}()
			case 2: // at an arbitrary transport event of either side (the program ends by itself at some instant)
				w.cancelFn = cancel
				w.mayRunForever = false
			}
		}
		if p.SyncAfterExec && refuses && w.cancelFn == nil {
			// the callback runs after the program has started: a refused program may be one that
			// never ends by itself - it has to be killed, not waited for
			w.mayRunForever = true
		}
		w.prog = nil
		res := c.Execve(ctx, p)
		cancelled := kern.Cancelled(ctx)
		w.cancelFn = nil
		cancel()
		failed = res.Status == runner.StatusRunnerError
		if failed {
			sym.Assert(res.Error != "", "Runner Error needs an explanation")
		}
		if pr := w.prog; pr != nil && pr.started && !w.l.broken {
			// C11: the program ran: the verdict is its genuine one, or Time Limit Exceeded when the
			// run was cancelled before it ended; cancellation is never a runner error
			sym.Reach("program-verdict")
			sym.Assert(pr.ended && pr.reaped, "the program must be dead and reaped when Execve returns")
			if p.SyncFunc == nil || p.SyncAfterExec || true {
				if !failed {
					want := refVerdict(pr.status)
					sym.Assert(res.Status == want, "the verdict must be the program's genuine one (a kill is Time Limit Exceeded)")
				}
			}
			if cancelled {
				sym.Reach("cancelled-run")
			}
			syncRefusedAfterExec := p.SyncAfterExec && p.SyncFunc != nil
			if !syncRefusedAfterExec {
				sym.Assert(!failed, "a run whose program was started must not end as Runner Error")
			}
		}
	}
	if !w.l.broken {
		// exactly the commands of this call were handled as top-level commands: one
		sym.Assert(w.handling <= before+1, "the container interpreted a sub-protocol message (ok/kill) as a new command")
		if !failed {
			sym.Assert(w.lastReplySeq == before+1, "the answer consumed by this call was produced for another command")
		}
	}
	_ = context.Background
	return failed
}

// refVerdict: README status table for a terminated program.
func refVerdict(ws uint32) runner.Status {
	low := ws & 0x7f
	if low == 0 {
		if (ws>>8)&0xff == 0 {
			return runner.StatusNormal
		}
		return runner.StatusNonzeroExitStatus
	}
	switch low {
	case 24, 9:
		return runner.StatusTimeLimitExceeded
	case 25:
		return runner.StatusOutputLimitExceeded
	case 31:
		return runner.StatusDisallowedSyscall
	}
	return runner.StatusSignalled
}

// c10: any history of <= n operations; failures caused by the request or the program are
// errors of that call and leave the environment usable (a final Ping succeeds); after a
// transport loss every later call fails and none hangs.
func c10(nops int, breaks int, allowCancel bool) {
	w := newWorld()
	w.breakLeft = breaks
	n := 1 + sym.Choose("nops", nops)
	for k := 1; k <= n; k++ {
		op := sym.Choose("op", opKinds)
		wasBroken := w.l.broken
		failed := w.doOp(op, k, allowCancel)
		if wasBroken {
			sym.Reach("call-after-loss")
			sym.Assert(failed, "a call after the transport was lost must fail")
		}
	}
	if !w.l.broken {
		failed := w.doOp(opPing, n+1, false)
		if !w.l.broken { // the transport may be lost during this very call
			sym.Reach("final-ping")
			sym.Assert(!failed, "the environment is unusable after a request- or program-caused failure")
			sym.Assert(!w.initExited, "the container init exited although the transport is intact")
		}
	} else {
		// lost transport: a later call must fail promptly (a hang is reported as a deadlock)
		err := w.host.Ping()
		sym.Reach("ping-after-loss")
		sym.Assert(err != nil, "a call after the transport was lost must fail")
	}
}

// VerifC14_DeleteSymlinkHistory: histories of two Delete/Symlink/Reset operations with
// symbolic per-item outcomes followed by a Ping: every call gets its own answer.
func VerifC14_DeleteSymlinkHistory() {
	w := newWorld()
	for k := 1; k <= 2; k++ {
		op := []int{opDelete, opSymlink, opReset}[sym.Choose("op", 3)]
		w.doOp(op, k, false)
	}
	failed := w.doOp(opPing, 3, false)
	sym.Reach("final-ping")
	sym.Assert(!failed, "the environment is unusable after failing file operations")
	sym.Assert(!w.initExited, "the container init exited")
}

func VerifC10_Ops1()       { c10(1, 0, false) }
func VerifC10_Ops2()       { c10(2, 0, false) }
func VerifC10_Ops1Cancel() { c10(1, 0, true) }
func VerifC10_Ops1Break()  { c10(1, 1, false) }

// VerifC10_InitDies: the container init is killed (OOM killer, operator) at an arbitrary
// transport event while a Ping / Open / Execve is in flight or before it: its end of the
// socket closes, the host reads end-of-file.  The call must come back (a hang is reported as
// a deadlock) - with an error unless its reply had already arrived - and every later call
// fails at once.
func VerifC10_InitDies() {
	w := newWorld()
	w.onlyRun = true
	died := false
	w.cancelFn = func() {
		died = true
		sym.Reach("init-killed")
		w.initExited = true
		w.l.closed[1] = true
		if pr := w.prog; pr != nil && pr.started && !pr.ended {
			pr.ended, pr.killed, pr.status = true, true, 9
		}
		sym.KillPid(pidInit)
		if sym.Pid() == pidInit {
			sym.ExitThread(137)
		}
	}
	c := w.host
	failed := false
	switch sym.Choose("op", 3) {
	case 0:
		failed = c.Ping() != nil
	case 1:
		_, err := c.Open([]OpenCmd{{Path: "/w/a"}})
		failed = err != nil
	case 2:
		w.mayRunForever = false
		res := c.Execve(kern.Background(), ExecveParam{Args: []string{"/bin/prog"}, Env: []string{"A=1"}})
		failed = res.Status == runner.StatusRunnerError
	}
	sym.Reach("call-returned")
	w.cancelFn = nil
	if !died {
		return
	}
	if failed {
		sym.Reach("call-failed")
	}
	sym.WaitOthers()
	err := c.Ping()
	sym.Assert(err != nil, "a call on an environment whose init is dead must fail")
}

// VerifC10_StaleCommand: two runs on one environment whose requests differ in every optional
// field (the first with all of them or none, the second with any subset; symbolic, including the zero values the wire encoding omits: no environment, no limits,
// no filter, sync before instead of after exec, a shorter argument list).  "No command is ever
// interpreted in the wrong state": each program is launched with exactly the arguments,
// environment, limits, filter and sync mode of its own request - nothing of the previous command
// carries over - and a request without arguments is refused whatever preceded it.
func VerifC10_StaleCommand() {
	w := newWorld()
	w.onlyRun, w.recordLaunch = true, true
	mk := func(tag string, bundled bool) ExecveParam {
		p := ExecveParam{Args: []string{"/bin/" + tag}}
		switch sym.Choose(tag+"_args", 3) {
		case 0:
			p.Args = nil
		case 2:
			p.Args = append(p.Args, "x")
		}
		// the first request sets all optional fields or none (one choice), the second each on its own
		all := bundled && sym.Bool(tag+"_all_options")
		opt := func(name string) bool {
			if bundled {
				return all
			}
			return sym.Bool(tag + name)
		}
		if opt("_env") {
			p.Env = []string{"E=" + tag}
		}
		if opt("_rlimits") {
			p.RLimits = []rlimit.RLimit{{Res: 7, Rlim: syscall.Rlimit{Cur: 9, Max: 9}}}
		}
		if opt("_filter") {
			p.Seccomp = seccomp.Filter{{Code: 6, K: 0x7fff0000}}
		}
		p.CTTY = opt("_ctty")
		if opt("_sync_after") {
			p.SyncAfterExec = true
			p.SyncFunc = func(int) error { return nil }
		}
		return p
	}
	for _, p := range []ExecveParam{mk("a", true), mk("b", false)} {
		w.launches = nil
		w.mayRunForever = false
		w.prog = nil
		res := w.host.Execve(kern.Background(), p)
		if len(p.Args) == 0 {
			sym.Reach("no-arguments")
			sym.Assert(res.Status == runner.StatusRunnerError, "a request without arguments must be refused, whatever the previous command was")
			sym.Assert(len(w.launches) == 0, "a program was launched for a request without arguments")
			continue
		}
		sym.Assert(len(w.launches) == 1, "one request, one launch")
		l := w.launches[0]
		sym.Assert(len(l.args) == len(p.Args), "launched with an argument list that is not the request's")
		for k := range p.Args {
			sym.Assert(l.args[k] == p.Args[k], "launched with an argument that is not the request's")
		}
		// the environment is the container's default followed by the request's
		nd := len(l.env) - len(p.Env)
		sym.Assert(nd >= 0, "request environment missing at launch")
		for k := range p.Env {
			sym.Assert(l.env[nd+k] == p.Env[k], "launched with an environment that is not the request's")
		}
		for _, e := range l.env[:nd] {
			sym.Assert(len(e) < 2 || e[:2] != "E=", "environment of an earlier request carried over")
		}
		sym.Assert(l.nRLimits == len(p.RLimits), "launched with limits that are not the request's")
		sym.Assert(l.filter == (len(p.Seccomp) > 0), "filter installed iff the request carries one")
		sym.Assert(l.ctty == p.CTTY, "controlling terminal requested iff the request asks for it")
		sym.Assert(l.syncBeforeExec == !p.SyncAfterExec, "sync mode of another request")
		sym.Assert(!l.execFile, "exec descriptor expected although the request has none")
		sym.Assert(res.Status != runner.StatusRunnerError, "a well-formed run ended as Runner Error")
	}
	sym.Reach("both-runs")
}
