package ptrace

import (
	"io/fs"
	"os"
	"syscall"

	"github.com/elastic/go-seccomp-bpf/arch"

	"github.com/criyle/go-sandbox/ptracer"
	"github.com/criyle/go-sandbox/zzverif/sym"
)

const (
	clsRead  = 'R'
	clsWrite = 'W'
	clsStat  = 'S'
	clsSys   = 'Y'
)

type polCall struct {
	cls  byte
	path string
}

// recHandler records what the policy is asked and answers with a fixed verdict.
type recHandler struct {
	calls   []polCall
	verdict ptracer.TraceAction
}

func (h *recHandler) CheckRead(p string) ptracer.TraceAction {
	h.calls = append(h.calls, polCall{clsRead, p})
	return h.verdict
}
func (h *recHandler) CheckWrite(p string) ptracer.TraceAction {
	h.calls = append(h.calls, polCall{clsWrite, p})
	return h.verdict
}
func (h *recHandler) CheckStat(p string) ptracer.TraceAction {
	h.calls = append(h.calls, polCall{clsStat, p})
	return h.verdict
}
func (h *recHandler) CheckSyscall(n string) ptracer.TraceAction {
	h.calls = append(h.calls, polCall{clsSys, n})
	return h.verdict
}

func (h *recHandler) has(cls byte, path string) bool {
	for _, c := range h.calls {
		if c.cls == cls && c.path == path {
			return true
		}
	}
	return false
}

func (h *recHandler) hasPath(path string) bool {
	for _, c := range h.calls {
		if c.cls != clsSys && c.path == path {
			return true
		}
	}
	return false
}

type regFile struct {
	nr   uint
	args [6]uint
	ret  int
	set  bool
}

// installRegs replaces the register accessors of ptracer.Context (fields are unexported).
func installRegs(r *regFile) {
	P := "(*github.com/criyle/go-sandbox/ptracer.Context)."
	sym.Intercept(P+"SyscallNo", func(*ptracer.Context) uint { return r.nr })
	sym.Intercept(P+"Arg0", func(*ptracer.Context) uint { return r.args[0] })
	sym.Intercept(P+"Arg1", func(*ptracer.Context) uint { return r.args[1] })
	sym.Intercept(P+"Arg2", func(*ptracer.Context) uint { return r.args[2] })
	sym.Intercept(P+"Arg3", func(*ptracer.Context) uint { return r.args[3] })
	sym.Intercept(P+"Arg4", func(*ptracer.Context) uint { return r.args[4] })
	sym.Intercept(P+"Arg5", func(*ptracer.Context) uint { return r.args[5] })
	sym.Intercept(P+"SetReturnValue", func(c *ptracer.Context, v int) { r.ret = v; r.set = true })
}

// noSymlinks: the tracee's file system has no symbolic links (resolution is the identity).
func noSymlinks() {
	sym.Intercept("os.Lstat", func(name string) (os.FileInfo, error) {
		return nil, &fs.PathError{Op: "lstat", Path: name, Err: syscall.ENOENT}
	})
}

func sysno(name string) uint {
	info, err := arch.GetInfo("")
	if err != nil {
		panic(err)
	}
	n, ok := info.SyscallNames[name]
	if !ok {
		panic("unknown syscall " + name)
	}
	return uint(n)
}

// VerifC02_ArgPositions: the syscall number is a solver variable over the whole table; for
// every path-taking syscall of the property the (directory register, pathname register,
// access class) the handler uses must be the ones of the syscall's ABI.
func VerifC02_ArgPositions() {
	regs := &regFile{args: [6]uint{0x1000, 0x2000, 0x3000, 0x4000, 0x5000, 0x6000}}
	regs.nr = uint(sym.U64("orig_rax"))
	installRegs(regs)
	noSymlinks()
	regIndex := func(v uint) int {
		for k, a := range regs.args {
			if a == v {
				return k
			}
		}
		return -1
	}
	names := []string{"p0", "p1", "p2", "p3", "p4", "p5"}
	sym.Intercept("(*github.com/criyle/go-sandbox/ptracer.Context).GetString", func(c *ptracer.Context, addr uintptr) string {
		if k := regIndex(uint(addr)); k >= 0 {
			return names[k]
		}
		return ""
	})
	sym.Intercept("github.com/criyle/go-sandbox/runner/ptrace.getProcCwd", func(pid int) string { return "/cwd" })
	fdn := []string{"/fd0", "/fd1", "/fd2", "/fd3", "/fd4", "/fd5"}
	sym.Intercept("github.com/criyle/go-sandbox/runner/ptrace.getProcFd", func(pid int, fd int) string {
		if k := regIndex(uint(fd)); k >= 0 {
			return fdn[k]
		}
		return "/fdX"
	})
	sym.Intercept("syscall.PtracePeekData", func(pid int, addr uintptr, out []byte) (int, error) {
		for k := range out {
			out[k] = 0
		}
		return len(out), nil
	})
	h := &recHandler{verdict: ptracer.TraceAllow}
	th := &tracerHandler{Handler: h}
	ctx := &ptracer.Context{Pid: 4242}
	act := th.Handle(ctx)
	info, _ := arch.GetInfo("")
	name, known := info.SyscallNumbers[int(regs.nr)]
	if !known {
		sym.Reach("unknown-number")
		sym.Assert(act == ptracer.TraceKill, "an unknown syscall number must be killed")
		sym.Assert(len(h.calls) == 0, "an unknown syscall number must not reach the policy")
		return
	}
	type want struct {
		cls  byte
		path string
	}
	var must []want
	switch name {
	case "open":
		must = []want{{clsRead, "/cwd/p0"}}
	case "openat", "openat2":
		must = []want{{clsRead, "/fd0/p1"}}
	case "readlink", "execve":
		must = []want{{clsRead, "/cwd/p0"}}
	case "readlinkat", "execveat":
		must = []want{{clsRead, "/fd0/p1"}}
	case "unlink", "chmod":
		must = []want{{clsWrite, "/cwd/p0"}}
	case "unlinkat", "mkdirat", "mknodat", "fchmodat", "fchmodat2":
		must = []want{{clsWrite, "/fd0/p1"}}
	case "symlinkat": // symlinkat(target, newdirfd, linkpath)
		must = []want{{clsWrite, "/fd1/p2"}}
	case "linkat": // linkat(olddirfd, oldpath, newdirfd, newpath, flags): the new name is created
		must = []want{{clsWrite, "/fd2/p3"}}
	case "renameat", "renameat2":
		must = []want{{clsWrite, "/fd0/p1"}, {clsWrite, "/fd2/p3"}}
	case "rename":
		must = []want{{clsWrite, "/cwd/p0"}, {clsWrite, "/cwd/p1"}}
	case "access", "stat", "lstat":
		must = []want{{clsStat, "/cwd/p0"}}
	case "faccessat", "faccessat2", "newfstatat", "statx":
		must = []want{{clsStat, "/fd0/p1"}}
	default:
		sym.Reach("other-syscall")
		return
	}
	sym.Reach("path-syscall")
	sym.Extra("syscall", name)
	for _, w := range must {
		sym.Assert(h.has(w.cls, w.path), "policy not consulted with the ABI's (dirfd, pathname) pair and class for "+name)
	}
	for _, c := range h.calls {
		if c.cls == clsSys {
			continue
		}
		ok := false
		for _, w := range must {
			if c.path == w.path {
				ok = true
			}
		}
		if name == "linkat" && c.path == "/fd0/p1" {
			ok = true // the old name: class left open by the property
		}
		sym.Assert(ok, "policy consulted about a path that is not an argument of "+name)
	}
}

// atSyscalls: syscalls whose first argument is a directory descriptor for the path in the second.
var atSyscalls = []string{"openat", "openat2", "readlinkat", "unlinkat", "mkdirat", "mknodat", "fchmodat", "faccessat", "faccessat2", "newfstatat", "statx", "execveat", "renameat", "renameat2", "linkat"}

// VerifC02_Dirfd: for all 2^64 values of the dirfd register the base directory is the
// kernel's: the register is read as a 32-bit int; AT_FDCWD (-100) means the cwd.
func VerifC02_Dirfd() {
	name := atSyscalls[sym.Choose("syscall", len(atSyscalls))]
	regs := &regFile{nr: sysno(name), args: [6]uint{0, 0x2000, 0, 0x4000, 0, 0}}
	reg0 := sym.U64("dirfd_reg")
	regs.args[0] = uint(reg0)
	regs.args[2] = uint(reg0) // second directory of the two-path calls gets the same encoding
	installRegs(regs)
	noSymlinks()
	sym.Intercept("(*github.com/criyle/go-sandbox/ptracer.Context).GetString", func(c *ptracer.Context, addr uintptr) string { return "rel" })
	sym.Intercept("github.com/criyle/go-sandbox/runner/ptrace.getProcCwd", func(pid int) string { return "/cwd" })
	var askedFd []int
	sym.Intercept("github.com/criyle/go-sandbox/runner/ptrace.getProcFd", func(pid int, fd int) string {
		askedFd = append(askedFd, fd)
		return "/fdbase"
	})
	sym.Intercept("syscall.PtracePeekData", func(pid int, addr uintptr, out []byte) (int, error) {
		for k := range out {
			out[k] = 0
		}
		return len(out), nil
	})
	h := &recHandler{verdict: ptracer.TraceAllow}
	th := &tracerHandler{Handler: h}
	th.Handle(&ptracer.Context{Pid: 4242})
	kfd := int32(uint32(reg0)) // the kernel's view: int dirfd
	sym.Extra("syscall", name)
	if kfd == -100 {
		sym.Reach("at_fdcwd")
		sym.Assert(h.hasPath("/cwd/rel"), "AT_FDCWD (any register encoding) must resolve against the cwd")
		sym.Assert(!h.hasPath("/fdbase/rel") && !h.hasPath(""), "AT_FDCWD must not be treated as a descriptor")
	} else {
		sym.Reach("descriptor")
		sym.Assert(h.hasPath("/fdbase/rel"), "a descriptor-relative name must resolve against that descriptor")
		for _, fd := range askedFd {
			sym.Assert(fd == int(kfd), "the descriptor looked up must be the kernel's (int)reg")
		}
	}
}

// VerifC02_OpenFlags: for all 2^64 flag words of open/openat and of open_how.flags, an open
// that can create, truncate or write is checked as a write; unreadable open_how => write.
func VerifC02_OpenFlags() {
	which := sym.Choose("call", 4)
	flags := sym.U64("flags")
	regs := &regFile{args: [6]uint{0x1000, 0x2000, 0x3000, 0, 0, 0}}
	peekFails := false
	switch which {
	case 0:
		regs.nr = sysno("open")
		regs.args[1] = uint(flags)
	case 1:
		regs.nr = sysno("openat")
		regs.args[0] = 0xffffffffffffff9c
		regs.args[2] = uint(flags)
	case 2:
		regs.nr = sysno("openat2")
		regs.args[0] = 0xffffffffffffff9c
	case 3:
		regs.nr = sysno("openat2")
		regs.args[0] = 0xffffffffffffff9c
		peekFails = true
	}
	installRegs(regs)
	noSymlinks()
	sym.Intercept("(*github.com/criyle/go-sandbox/ptracer.Context).GetString", func(c *ptracer.Context, addr uintptr) string { return "/abs" })
	sym.Intercept("syscall.PtracePeekData", func(pid int, addr uintptr, out []byte) (int, error) {
		if peekFails {
			return 0, syscall.EIO
		}
		sym.Assert(addr == 0x3000, "open_how must be read from the third argument")
		for k := range out {
			out[k] = byte(flags >> (8 * uint(k)))
		}
		return len(out), nil
	})
	h := &recHandler{verdict: ptracer.TraceAllow}
	th := &tracerHandler{Handler: h}
	th.Handle(&ptracer.Context{Pid: 4242})
	if peekFails {
		sym.Reach("open_how-unreadable")
		sym.Assert(h.has(clsWrite, "/abs") && !h.has(clsRead, "/abs"), "unreadable open_how must be classified as a write")
		return
	}
	f := flags
	if which < 2 {
		f = flags & 0xffffffff // open/openat take an int
	}
	acc := f & 3
	writeCapable := acc != 0 || f&0x40 != 0 || f&0x200 != 0 // O_WRONLY/O_RDWR/3, O_CREAT, O_TRUNC
	if writeCapable {
		sym.Reach("write-capable")
		sym.Assert(h.has(clsWrite, "/abs"), "an open that can create, truncate or write must be checked as a write")
		sym.Assert(!h.has(clsRead, "/abs"), "a write-capable open must not be checked as a read only")
	} else if f&0x80 == 0 { // no O_EXCL either: a plain read-only open
		sym.Reach("read-only")
		sym.Assert(h.has(clsRead, "/abs") && !h.has(clsWrite, "/abs"), "a read-only open must be checked as a read")
	}
}
