package ptrace

import (
	"syscall"

	"github.com/criyle/go-sandbox/ptracer"
	"github.com/criyle/go-sandbox/zzverif/sym"
)

type pathVerdicts struct {
	byPath map[string]ptracer.TraceAction
	sys    ptracer.TraceAction
}

func (h *pathVerdicts) CheckRead(p string) ptracer.TraceAction    { return h.byPath[p] }
func (h *pathVerdicts) CheckWrite(p string) ptracer.TraceAction   { return h.byPath[p] }
func (h *pathVerdicts) CheckStat(p string) ptracer.TraceAction    { return h.byPath[p] }
func (h *pathVerdicts) CheckSyscall(n string) ptracer.TraceAction { return h.sys }

func symVerdict(name string) ptracer.TraceAction {
	return []ptracer.TraceAction{ptracer.TraceAllow, ptracer.TraceBan, ptracer.TraceKill}[sym.Choose(name, 3)]
}

// VerifC03_HandlerVerdicts: the verdict Handle returns for a trapped call is the strictest of
// the policy's verdicts for the paths the call names (kill > ban > allow; both paths of
// rename / renameat / linkat count), a ban sets the return register to minus the CONFIGURED
// errno (BanRet is a solver-chosen errno set after package initialisation), and the unsafe
// mode turns a kill for an unlisted syscall into a ban.
func VerifC03_HandlerVerdicts() {
	noSymlinks()
	regs := &regFile{}
	calls := []string{"open", "unlink", "rename", "renameat2", "linkat", "getpid"}
	name := calls[sym.Choose("call", len(calls))]
	regs.nr = sysno(name)
	regs.args = [6]uint{0x1000, 0x2000, 0x3000, 0x4000, 0x5000, 0x6000}
	installRegs(regs)
	sym.Intercept("(*github.com/criyle/go-sandbox/ptracer.Context).GetString", func(c *ptracer.Context, addr uintptr) string {
		switch addr {
		case 0x1000:
			return "/p0"
		case 0x2000:
			return "/p1"
		case 0x4000:
			return "/p3"
		}
		return "/other"
	})
	errno := syscall.Errno(sym.Uintptr("ban_errno"))
	sym.Assume(errno >= 1 && errno <= 133)
	BanRet = errno
	v0, v1, vs := symVerdict("verdict_first_path"), symVerdict("verdict_second_path"), symVerdict("verdict_syscall")
	h := &pathVerdicts{byPath: map[string]ptracer.TraceAction{}, sys: vs}
	var want ptracer.TraceAction
	strictest := func(a, b ptracer.TraceAction) ptracer.TraceAction {
		if a == ptracer.TraceKill || b == ptracer.TraceKill {
			return ptracer.TraceKill
		}
		if a == ptracer.TraceBan || b == ptracer.TraceBan {
			return ptracer.TraceBan
		}
		return ptracer.TraceAllow
	}
	unsafe := sym.Bool("unsafe_mode")
	switch name {
	case "open", "unlink":
		h.byPath["/p0"] = v0
		want = v0
	case "rename":
		h.byPath["/p0"], h.byPath["/p1"] = v0, v1
		want = strictest(v0, v1)
	case "renameat2", "linkat":
		h.byPath["/p1"], h.byPath["/p3"] = v0, v1
		want = strictest(v0, v1)
	default:
		want = vs
		if unsafe && vs == ptracer.TraceKill {
			want = ptracer.TraceBan
		}
	}
	th := &tracerHandler{Handler: h, Unsafe: unsafe}
	got := th.Handle(&ptracer.Context{Pid: 4242})
	sym.Reach("handled")
	sym.Assert(got == want, "the verdict enforced for a call must be the strictest verdict of the policy for the objects it names")
	if want == ptracer.TraceBan {
		sym.Reach("ban")
		sym.Assert(regs.set && regs.ret == -int(errno), "a banned call must return minus the configured errno")
	} else {
		sym.Assert(!regs.set, "the return register is only written for a ban")
	}
}
