package ptrace

import (
	"fmt"

	"github.com/criyle/go-sandbox/zzverif/sym"
)

// SelfTestC02: the table-driven inputs of the package's own unit tests, computed concretely.
func SelfTestC02() {
	out := ""
	for _, p := range []string{"/proc/self", "/proc/self/fd/0", "/proc/thread-self/root", "/proc/thread-self", "/tmp/../proc/self/cwd", "/proc/selfish", "relative/./x", ""} {
		out += fmt.Sprintf("[%s|%v|%v]", normalizeProcMagicPath(4242, p), isDangerousProcPath(p), isAllowedProcAlias(4242, p))
	}
	sym.Output("proc_paths", out)
	fl := ""
	for _, f := range []uint64{0, 1, 2, 3, 0x40, 0x80, 0x200, 0x241, 0x410000, 0x8000, 1 << 40} {
		fl += fmt.Sprintf("%v,", isOpenReadOnly(f))
	}
	sym.Output("open_flags", fl)
	sym.Output("combine", fmt.Sprint(combineTraceActions(0, 1), combineTraceActions(1, 2), combineTraceActions(0, 0), combineTraceActions()))
	sym.Output("filemode", getFileMode(0)+getFileMode(1)+getFileMode(2)+getFileMode(3))
}
