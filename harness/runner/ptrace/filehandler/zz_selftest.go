package filehandler

import (
	"fmt"

	"github.com/criyle/go-sandbox/zzverif/sym"
)

// SelfTestC18: concrete sets and queries (incl. those of the package's unit test).
func SelfTestC18() {
	fs := NewFileSet()
	fs.AddRange([]string{"/exact/path", "/path/to/dir/", "/wild/*", "rel/dir", "/"}, "/work")
	out := ""
	for _, q := range []string{"/exact/path", "/path/to/dir/sub/file", "/wild/a", "/wild/a/b", "/", "", "/work/rel/dir/x", "/non/existent", "/wild", "/path/to/dir"} {
		out += fmt.Sprintf("%v,", fs.IsInSetSmart(q))
	}
	sym.Output("inset", out)
	c := NewSyscallCounter()
	c.Add("fork", 2)
	res := ""
	for i := 0; i < 4; i++ {
		a, b := c.Check("fork")
		res += fmt.Sprint(a, b, ";")
	}
	a, b := c.Check("vfork")
	sym.Output("counter", res+fmt.Sprint(a, b))
	sym.Output("dirname", dirname("/a/b/c")+"|"+dirname("a")+"|"+dirname("/"))
}
