package filehandler

// C18 harnesses: path-set policy admits only covered paths; counters never exceed
// their budget.  Interpreted symbolically by symgo; also compiles natively for replay.

import (
	"github.com/criyle/go-sandbox/ptracer"
	"github.com/criyle/go-sandbox/zzverif/sym"
)

// refCovers is the reference definition of "entry covers path" (written from the
// property statement, independent of the level walk in IsInSetSmart).
func refCovers(entry, path string) bool {
	if entry == path {
		return true
	}
	n := len(entry)
	if n >= 1 && entry[n-1] == '/' {
		d := entry[:n-1]
		// d itself, or anything beneath d
		if path == d {
			return true
		}
		if len(path) > len(d) && path[:len(d)] == d && path[len(d)] == '/' {
			return true
		}
		return false
	}
	if n >= 2 && entry[n-2] == '/' && entry[n-1] == '*' {
		d := entry[:n-2]
		// direct children of d only: d + "/" + name, name non-empty without '/'
		if len(path) > len(d)+1 && path[:len(d)] == d && path[len(d)] == '/' {
			for k := len(d) + 1; k < len(path); k++ {
				if path[k] == '/' {
					return false
				}
			}
			return true
		}
	}
	return false
}

// cleanStable: "" or an absolute path that filepath.Clean leaves unchanged.
func cleanStable(p string) bool {
	if p == "" {
		return true
	}
	if p[0] != '/' {
		return false
	}
	if p == "/" {
		return true
	}
	if p[len(p)-1] == '/' {
		return false
	}
	// components
	start := 1
	for k := 1; k <= len(p); k++ {
		if k == len(p) || p[k] == '/' {
			comp := p[start:k]
			if comp == "" || comp == "." || comp == ".." {
				return false
			}
			start = k + 1
		}
	}
	return true
}

func symSet(tag string, maxEntries, maxLen int) (FileSet, []string) {
	s := NewFileSet()
	var entries []string
	n := sym.Choose(tag+"_n", maxEntries+1)
	for k := 0; k < n; k++ {
		l := sym.Choose(tag+"_len", maxLen+1)
		e := sym.Str(tag+"_e", l)
		// raw map contents (what AddRange/Add may store); "/" goes to SystemRoot via Add
		s.Set[e] = true
		entries = append(entries, e)
	}
	if sym.Bool(tag + "_root") {
		s.SystemRoot = true
		entries = append(entries, "/") // exact entry "/"
	}
	return s, entries
}

func coveredBy(entries []string, path string, systemRootExact bool) bool {
	for _, e := range entries {
		if systemRootExact && e == "/" {
			if path == "/" {
				return true
			}
			continue
		}
		if refCovers(e, path) {
			return true
		}
	}
	return false
}

func inSetHarness(maxPath, maxEntries, maxLen int) {
	s, entries := symSet("s", maxEntries, maxLen)
	l := sym.Choose("plen", maxPath+1)
	p := sym.Str("p", l)
	sym.Assume(cleanStable(p))
	got := s.IsInSetSmart(p)
	// the SystemRoot flag stands for the exact entry "/" and is the last element
	want := false
	for k, e := range entries {
		if s.SystemRoot && k == len(entries)-1 {
			if p == "/" {
				want = true
			}
			continue
		}
		if refCovers(e, p) {
			want = true
		}
	}
	if got {
		sym.Reach("admitted")
	} else {
		sym.Reach("refused")
	}
	sym.Assert(!got || want, "IsInSetSmart admitted a path that no entry covers")
	sym.Assert(got || !want, "IsInSetSmart refused a path that an entry covers")
}

// VerifC18_InSet_Quick: 1 entry of <=4 bytes, path <=5 bytes, every byte value.
func VerifC18_InSet_Quick() { inSetHarness(5, 1, 4) }

// VerifC18_InSet_Thorough: 2 entries of <=5 bytes, path <=7 bytes.
func VerifC18_InSet_Thorough() { inSetHarness(7, 2, 5) }

// VerifC18_Counter: inductive step of the countdown from an arbitrary state.
func VerifC18_Counter() {
	c := NewSyscallCounter()
	n := sym.Int("count")
	name := "fork"
	counted := sym.Bool("counted")
	if counted {
		c.Add(name, n)
	}
	h := &Handler{FileSet: NewFileSets(), SyscallCounter: c}
	a1 := h.CheckSyscall(name)
	if !counted {
		sym.Reach("uncounted")
		sym.Assert(a1 == ptracer.TraceBan, "uncounted traced syscall must be soft-banned")
		return
	}
	sym.Reach("counted")
	// remaining budget semantic: allowed at most n times in total; once refused, refused ever after
	after := c[name]
	sym.Assume(n > -(1 << 62))
	sym.Assert(after == n-1, "counter must decrease by exactly one per call")
	if a1 == ptracer.TraceAllow {
		sym.Assert(n >= 1, "a call was allowed with no budget left")
	} else {
		sym.Assert(a1 == ptracer.TraceKill, "exhausted counter must refuse with kill")
		a2 := h.CheckSyscall(name)
		sym.Reach("refused-then-again")
		sym.Assert(a2 != ptracer.TraceAllow, "once refused, a counted syscall must stay refused")
	}
	// monotone: if this call was refused the next one is refused as well; if allowed with n, then
	// the number of further allowed calls is < n (checked by induction on `after < n`)
}

// fixedSet builds a set with one raw entry of exactly l symbolic bytes (l<0: empty set)
// and a symbolic SystemRoot flag.  rootIdx is the index in entries of the exact "/" entry or -1.
func fixedSet(tag string, l int) (FileSet, []string, int) {
	s := NewFileSet()
	var entries []string
	if l >= 0 {
		e := sym.Str(tag+"_e", l)
		s.Set[e] = true
		entries = append(entries, e)
	}
	rootIdx := -1
	if sym.Bool(tag + "_root") {
		s.SystemRoot = true
		rootIdx = len(entries)
		entries = append(entries, "/")
	}
	return s, entries, rootIdx
}

func covered(entries []string, rootIdx int, path string) bool {
	for k, e := range entries {
		if k == rootIdx {
			if path == "/" {
				return true
			}
			continue
		}
		if refCovers(e, path) {
			return true
		}
	}
	return false
}

// cascade: writable => readable => statable; refusal is Ban iff the soft-ban set covers
// the path (raw or real), else Kill.  Entry lengths are fixed per instance, bytes symbolic.
func cascade(lw, lr, lt, lb, lp, lrp int) {
	fs := NewFileSets()
	var ents [4][]string
	var ri [4]int
	fs.Writable, ents[0], ri[0] = fixedSet("w", lw)
	fs.Readable, ents[1], ri[1] = fixedSet("r", lr)
	fs.Statable, ents[2], ri[2] = fixedSet("t", lt)
	fs.SoftBan, ents[3], ri[3] = fixedSet("b", lb)
	p := sym.Str("p", lp)
	sym.Assume(cleanStable(p))
	// realPath is a stub: an arbitrary clean-stable string, or "" (unresolvable)
	rp := sym.Str("rp", lrp)
	sym.Assume(cleanStable(rp))
	sym.Intercept("github.com/criyle/go-sandbox/runner/ptrace/filehandler.realPath", func(string) string { return rp })
	h := &Handler{FileSet: fs, SyscallCounter: NewSyscallCounter()}
	w, r, s := fs.IsWritableFile(p), fs.IsReadableFile(p), fs.IsStatableFile(p)
	sym.Assert(!w || r, "writable must imply readable")
	sym.Assert(!r || s, "readable must imply statable")
	cov := func(k int) bool {
		return covered(ents[k], ri[k], p) || covered(ents[k], ri[k], rp)
	}
	sym.Assert(!w || cov(0), "write admitted without a covering writable entry")
	sym.Assert(!r || cov(0) || cov(1), "read admitted without a covering entry")
	sym.Assert(!s || cov(0) || cov(1) || cov(2), "stat admitted without a covering entry")
	cls := sym.Choose("class", 3)
	var act ptracer.TraceAction
	var admitted bool
	switch cls {
	case 0:
		act, admitted = h.CheckWrite(p), w
	case 1:
		act, admitted = h.CheckRead(p), r
	case 2:
		act, admitted = h.CheckStat(p), s
	}
	if admitted {
		sym.Reach("allow")
		sym.Assert(act == ptracer.TraceAllow, "admitted access must be allowed")
		return
	}
	if fs.IsSoftBanFile(p) {
		sym.Reach("ban")
		sym.Assert(cov(3), "soft-banned without a covering soft-ban entry")
		sym.Assert(act == ptracer.TraceBan, "refusal of a soft-ban path must be Ban")
	} else {
		sym.Reach("kill")
		sym.Assert(!cov(3) || (p == "/" || rp == "/"), "covered by the soft-ban set but not soft-banned")
		sym.Assert(act == ptracer.TraceKill, "refusal outside the soft-ban set must be Kill")
	}
}

func VerifC18_Cascade_Q1() { cascade(2, -1, 2, 2, 2, 0) }
func VerifC18_Cascade_Q2() { cascade(-1, 2, -1, 1, 2, 2) }
func VerifC18_Cascade_Q3() { cascade(1, 1, 1, 1, 0, 1) } // the empty (unresolvable) name
func VerifC18_Cascade_T1() { cascade(2, 2, 2, 2, 3, 3) }
func VerifC18_Cascade_T2() { cascade(3, 2, 3, 3, 4, 2) }
func VerifC18_Cascade_T3() { cascade(1, 1, 1, 1, 1, 1) }
func VerifC18_Cascade_T4() { cascade(0, 3, 2, 2, 0, 3) }

type unresolvable struct{}

func (unresolvable) Error() string { return "no such file or directory" }

// VerifC18_RealPath: the resolver contract the cascade harnesses stub out.  The real realPath runs
// with filepath.EvalSymlinks replaced by an arbitrary (result, error) pair: a name that cannot be
// resolved must stand as the empty path (which no entry covers), a resolved one as exactly the
// resolver's answer; end to end, an unresolvable name is admitted only if an entry covers the name
// as written -- never through a normalised or partially resolved form of it.
func VerifC18_RealPath() {
	fails := sym.Bool("eval_fails")
	res := sym.Str("res", 2)
	sym.Intercept("path/filepath.EvalSymlinks", func(string) (string, error) {
		if fails {
			return "", unresolvable{}
		}
		return res, nil
	})
	p := sym.Str("p", 4)
	got := realPath(p) // any name at all, clean or not
	if fails {
		sym.Assert(got == "" || got == p, "an unresolvable name must stand as the empty path, never as a derived form of the name")
	} else {
		sym.Assert(got == res, "a resolved name must stand as exactly the resolver's answer")
	}
	// end to end, as in the cascade harnesses: the tracer presents only clean absolute names, resolutions are clean
	sym.Assume(cleanStable(p) && p != "")
	sym.Assume(cleanStable(res))
	fs := NewFileSets()
	var ents []string
	var ri int
	fs.Readable, ents, ri = fixedSet("r", 2)
	fs.SoftBan = fs.Readable
	adm := fs.IsReadableFile(p)
	ban := fs.IsSoftBanFile(p)
	if fails {
		sym.Reach("unresolvable")
		sym.Assert(!adm || covered(ents, ri, p), "unresolvable name admitted although no entry covers it as written")
		sym.Assert(!ban || covered(ents, ri, p), "unresolvable name soft-banned although no entry covers it as written")
		return
	}
	sym.Reach("resolved")
	sym.Assert(!adm || covered(ents, ri, p) || covered(ents, ri, res), "admitted although no entry covers the name or its resolution")
}
