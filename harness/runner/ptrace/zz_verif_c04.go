package ptrace

import (
	"context"
	"syscall"
	"time"

	"github.com/criyle/go-sandbox/pkg/forkexec"
	"github.com/criyle/go-sandbox/ptracer"
	"github.com/criyle/go-sandbox/runner"
	"github.com/criyle/go-sandbox/zzverif/sym"
)

// VerifC04_PtraceRunnerBuildsLauncher: the ptrace runner hands its configuration to the
// launcher: tracing always, a filter if and only if one was given (no filter is legal and
// must not make the runner fail), the sync callback, arguments and descriptors unchanged.
func VerifC04_PtraceRunnerBuildsLauncher() {
	var got *forkexec.Runner
	sym.Intercept("(*github.com/criyle/go-sandbox/ptracer.Tracer).Trace", func(t *ptracer.Tracer, c context.Context) runner.Result {
		if fr, ok := t.Runner.(*forkexec.Runner); ok {
			cp := *fr
			got = &cp
		}
		return runner.Result{Status: runner.StatusNormal}
	})
	sym.Intercept("os.Getuid", func() int { return sym.Choose("uid", 2) })
	called := false
	r := &Runner{Args: []string{"/bin/true", "x"}, Env: []string{"A=1"}, Files: []uintptr{0, 1, 2}, WorkDir: "/w",
		Limit: runner.Limit{TimeLimit: time.Hour, MemoryLimit: 1 << 40}, Handler: &recHandler{}}
	if sym.Bool("with_syncfunc") {
		r.SyncFunc = func(pid int) error { called = true; return nil }
	}
	nf := sym.Choose("filter_len", 3)
	for i := 0; i < nf; i++ {
		r.Seccomp = append(r.Seccomp, syscall.SockFilter{Code: 6, K: 0x7fff0000})
	}
	res := r.Run(context.Background())
	sym.Reach("returned")
	sym.Assert(res.Status == runner.StatusNormal && got != nil, "the tracer must be started with the launcher")
	if got == nil {
		return
	}
	sym.Assert(got.Ptrace, "the ptrace runner always launches a traced program")
	if nf == 0 {
		sym.Reach("no-filter")
		sym.Assert(got.Seccomp == nil, "a filter is installed although none was given")
	} else {
		sym.Reach("filter")
		sym.Assert(got.Seccomp != nil && int(got.Seccomp.Len) == nf, "the given filter must be handed to the launcher whole")
	}
	sym.Assert((got.SyncFunc != nil) == (r.SyncFunc != nil), "the sync callback must be handed on")
	if got.SyncFunc != nil {
		got.SyncFunc(1)
		sym.Assert(called, "the launcher's sync callback must be the caller's")
	}
	sym.Assert(len(got.Args) == 2 && got.Args[1] == "x" && len(got.Files) == 3 && got.WorkDir == "/w", "arguments, descriptors and work directory must arrive unchanged")
}
