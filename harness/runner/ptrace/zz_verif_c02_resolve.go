package ptrace

import (
	"io/fs"
	"os"
	"strconv"
	"strings"
	"syscall"
	"time"

	"github.com/criyle/go-sandbox/zzverif/sym"
)

// ---- K-FS: a small symbolic forest inside the tracee's root --------------------------------
// Fixed skeleton /a, /a/b, /a/b/c, /d, /d/e, /f; each node's kind (directory, regular file,
// symbolic link, absent) and each link's target (index into linkTargets) are solver
// variables that are only split when a walk actually looks at the node.

const (
	kAbsent = iota
	kDir
	kFile
	kLink
)

// (the last two carry a ".." after a component that may itself be a link: the link's own text
// must be walked physically too, not cleaned lexically)
var linkTargets = []string{"b", "../d", "/d", "/a/b", "e", ".", "..", "/d/e", "c", "/f", "a/b/..", "d/e/../e"}

type forest struct {
	kind   map[string]uint8
	target map[string]uint8
	lstats int
}

func newForest() *forest {
	f := &forest{kind: map[string]uint8{}, target: map[string]uint8{}}
	for _, p := range []string{"/a", "/a/b", "/a/b/c", "/d", "/d/e", "/f"} {
		k := sym.U8("kind")
		sym.Assume(k <= kLink)
		f.kind[p] = k
		t := sym.U8("target")
		sym.Assume(int(t) < len(linkTargets))
		f.target[p] = t
	}
	return f
}

// kindOf: the object at a canonical path (the parent chain must consist of directories).
func (f *forest) kindOf(p string) uint8 {
	if p == "/" {
		return kDir
	}
	k, ok := f.kind[p]
	if !ok {
		return kAbsent
	}
	parent := p[:strings.LastIndexByte(p, '/')]
	if parent == "" {
		parent = "/"
	}
	if f.kindOf(parent) != kDir {
		return kAbsent
	}
	return k
}

func (f *forest) linkOf(p string) string { return linkTargets[f.target[p]] }

type rinfo struct{ mode os.FileMode }

func (r rinfo) Name() string       { return "x" }
func (r rinfo) Size() int64        { return 0 }
func (r rinfo) Mode() os.FileMode  { return r.mode }
func (r rinfo) ModTime() time.Time { return time.Time{} }
func (r rinfo) IsDir() bool        { return r.mode.IsDir() }
func (r rinfo) Sys() any           { return nil }

const tracee = 4242

func (f *forest) install(cwd string, fdDir string) {
	rootPrefix := "/proc/" + strconv.Itoa(tracee) + "/root"
	sym.Intercept("os.Lstat", func(name string) (os.FileInfo, error) {
		f.lstats++
		if !strings.HasPrefix(name, rootPrefix) {
			return nil, &fs.PathError{Op: "lstat", Path: name, Err: syscall.ENOENT}
		}
		p := name[len(rootPrefix):]
		if p == "" {
			p = "/"
		}
		switch f.kindOf(p) {
		case kDir:
			return rinfo{os.ModeDir | 0755}, nil
		case kFile:
			return rinfo{0644}, nil
		case kLink:
			return rinfo{os.ModeSymlink | 0777}, nil
		}
		return nil, &fs.PathError{Op: "lstat", Path: name, Err: syscall.ENOENT}
	})
	sym.Intercept("os.Readlink", func(name string) (string, error) {
		switch name {
		case "/proc/" + strconv.Itoa(tracee) + "/cwd":
			return cwd, nil
		case "/proc/" + strconv.Itoa(tracee) + "/fd/7":
			return fdDir, nil
		}
		if strings.HasPrefix(name, rootPrefix) {
			p := name[len(rootPrefix):]
			if f.kindOf(p) == kLink {
				return f.linkOf(p), nil
			}
		}
		return "", &fs.PathError{Op: "readlink", Path: name, Err: syscall.EINVAL}
	})
}

// refResolve is the kernel's path resolution (path_resolution(7)) on the forest: component
// walk from base, physical "..", symlinks expanded in place (<= 40), the final component
// followed iff follow.  It returns the canonical path of the object reached - or, for an
// absent last component under an existing directory, the path the object would get.
// dotdotAfterLink reports whether a ".." was processed after a symlink had been expanded
// (the class of inputs on which a lexical Clean before the walk changes the answer).
func refResolve(f *forest, base, path string, follow bool) (res string, ok bool, dotdotAfterLink bool, finalIsLink bool) {
	cur := base
	if strings.HasPrefix(path, "/") {
		cur = "/"
	}
	comps := strings.Split(path, "/")
	expanded := 0
	sawLink := false
	for i := 0; i < len(comps); i++ {
		c := comps[i]
		if c == "" || c == "." {
			continue
		}
		if f.kindOf(cur) != kDir {
			return "", false, dotdotAfterLink, false
		}
		if c == ".." {
			if sawLink {
				dotdotAfterLink = true
			}
			if cur != "/" {
				cur = cur[:strings.LastIndexByte(cur, '/')]
				if cur == "" {
					cur = "/"
				}
			}
			continue
		}
		next := cur + "/" + c
		if cur == "/" {
			next = "/" + c
		}
		last := true
		for _, r := range comps[i+1:] {
			if r != "" && r != "." {
				last = false
			}
		}
		switch f.kindOf(next) {
		case kAbsent:
			if last {
				return next, true, dotdotAfterLink, false
			}
			return "", false, dotdotAfterLink, false
		case kLink:
			if last && !follow {
				return next, true, dotdotAfterLink, true
			}
			expanded++
			if expanded > 40 {
				return "", false, dotdotAfterLink, false
			}
			sawLink = true
			t := f.linkOf(next)
			rest := append(strings.Split(t, "/"), comps[i+1:]...)
			if strings.HasPrefix(t, "/") {
				cur = "/"
			}
			comps = rest
			i = -1
			continue
		}
		cur = next
	}
	return cur, true, dotdotAfterLink, false
}

var resolveQueries = []string{
	"a", "a/b", "a/b/c", "/a/b/c", "d/e", "/d/e", "f", "a/../d", "a/b/../../d/e", "./a//b/", "a/b/..",
	"../d/e", "/a/../f", "a/./b/./c", "/", ".", "..", "a/b/c/..", "/d/../a/b",
}

// VerifC02_Resolve: absPath / absPathAt against the kernel's resolution on the symbolic
// forest, for cwd-relative, descriptor-relative and absolute names: whenever the kernel's
// walk reaches an object, the path presented to the policy is that object's canonical path.
// Inputs on which a lexical Clean before symlink expansion changes the answer ('..' after a
// symlink) are the known finding C02/lexical-dotdot and are reported under that class.
func VerifC02_Resolve() { c02Resolve(resolveQueries, -1) }

// quick: a few representative names (symlink in the middle, '..' before and after, absolute)
func VerifC02_Resolve_Q() { c02Resolve([]string{"a/b/c", "a/../d", "/d/e", "./a//b/"}, 2) }

func VerifC02_Resolve_T0() { c02Resolve(resolveQueries[:5], -1) }
func VerifC02_Resolve_T1() { c02Resolve(resolveQueries[5:10], -1) }
func VerifC02_Resolve_T2() { c02Resolve(resolveQueries[10:15], -1) }
func VerifC02_Resolve_T3() { c02Resolve(resolveQueries[15:], -1) }

func c02Resolve(queries []string, fixedMode int) {
	f := newForest()
	cwdChoices := []string{"/", "/a", "/a/b", "/d"}
	cwd := cwdChoices[sym.Choose("cwd", len(cwdChoices))]
	fdDir := cwdChoices[sym.Choose("fddir", len(cwdChoices))]
	sym.Assume(f.kindOf(cwd) == kDir)
	sym.Assume(f.kindOf(fdDir) == kDir)
	f.install(cwd, fdDir)
	q := queries[sym.Choose("query", len(queries))]
	mode := fixedMode
	if mode < 0 {
		mode = sym.Choose("mode", 3)
	}
	var got, base string
	switch mode {
	case 0:
		got, base = absPath(tracee, q), cwd
	case 1:
		got, base = absPathAt(tracee, atFDCWD, q), cwd
	case 2:
		got, base = absPathAt(tracee, 7, q), fdDir
	}
	want, ok, ddAfterLink, _ := refResolve(f, base, q, true)
	if !ok {
		sym.Reach("kernel-fails")
		return // the kernel refuses the name itself (ENOENT/ENOTDIR/ELOOP): nothing is touched
	}
	sym.Reach("kernel-resolves")
	if ddAfterLink {
		sym.Reach("dotdot-after-symlink")
		sym.Extra("class", "lexical-dotdot-after-symlink")
	}
	sym.Extra("query", q)
	sym.Extra("base", base)
	sym.Extra("got", got)
	sym.Extra("want", want)
	sym.Assert(got == want, "the path presented to the policy is not the object the kernel resolves the name to")
}
