package ptrace

import (
	"github.com/criyle/go-sandbox/ptracer"
	"github.com/criyle/go-sandbox/zzverif/sym"
)

// Final-component rule of path_resolution(7) per traced call: does the kernel follow a
// symbolic link in the LAST component?  (flag-dependent calls are driven with flags == 0)
var finalFollow = []struct {
	name   string
	at     bool // (dirfd, path) in registers 0,1 (else path in register 0)
	follow bool
	cls    byte
}{
	{"stat", false, true, clsStat},
	{"access", false, true, clsStat},
	{"chmod", false, true, clsWrite},
	{"execve", false, true, clsRead},
	{"lstat", false, false, clsStat},
	{"readlink", false, false, clsRead},
	{"unlink", false, false, clsWrite},
	{"readlinkat", true, false, clsRead},
	{"unlinkat", true, false, clsWrite},
	{"mkdirat", true, false, clsWrite},
	{"mknodat", true, false, clsWrite},
	{"newfstatat", true, true, clsStat}, // flags 0: follows
}

// VerifC02_FinalComponent: Handle on the symbolic forest for calls that do / do not follow a
// symbolic link in the last component: the policy must be asked about the object the kernel's
// own resolution of THAT call reaches - for unlink, readlink, lstat, mkdir, mknod the link
// itself, not its target.
func VerifC02_FinalComponent() {
	c02Final([]string{"/", "/a", "/d"}, []string{"a", "a/b", "/d/e", "f", "a/b/c"}, len(finalFollow))
}

// quick: cwd /, two names, the first eight calls of the table
func VerifC02_FinalComponent_Q() { c02Final([]string{"/"}, []string{"a/b", "f"}, 8) }

func c02Final(cwdChoices []string, queries []string, ncalls int) {
	f := newForest()
	cwd := cwdChoices[sym.Choose("cwd", len(cwdChoices))]
	sym.Assume(f.kindOf(cwd) == kDir)
	f.install(cwd, cwd)
	q := queries[sym.Choose("query", len(queries))]
	sc := finalFollow[sym.Choose("syscall", ncalls)]
	regs := &regFile{nr: sysno(sc.name)}
	pathReg := 0
	if sc.at {
		regs.args[0] = uint(uint32(0xffffff9c)) // AT_FDCWD
		pathReg = 1
	}
	regs.args[pathReg] = 0x2000
	installRegs(regs)
	sym.Intercept("(*github.com/criyle/go-sandbox/ptracer.Context).GetString", func(c *ptracer.Context, addr uintptr) string {
		if addr == 0x2000 {
			return q
		}
		return ""
	})
	h := &recHandler{verdict: ptracer.TraceAllow}
	th := &tracerHandler{Handler: h}
	th.Handle(&ptracer.Context{Pid: tracee})
	want, ok, _, finalIsLink := refResolve(f, cwd, q, sc.follow)
	if !ok {
		sym.Reach("kernel-fails")
		return
	}
	sym.Reach("kernel-resolves")
	if finalIsLink {
		sym.Reach("final-link-not-followed")
		sym.Extra("class", "final-symlink-followed-for-nofollow-call")
	}
	sym.Extra("syscall", sc.name)
	sym.Extra("query", q)
	sym.Extra("want", want)
	if len(h.calls) > 0 {
		sym.Extra("got", h.calls[0].path)
	}
	if finalIsLink {
		sym.Assert(h.has(sc.cls, want), "a call that does not follow a final symbolic link is checked against the link's target instead of the link itself")
	} else {
		sym.Assert(h.has(sc.cls, want), "the policy is not asked about the object the kernel's resolution of this call reaches")
	}
}
