package unshare

import (
	"context"
	"syscall"
	"time"

	"golang.org/x/sys/unix"

	"github.com/criyle/go-sandbox/pkg/forkexec"
	"github.com/criyle/go-sandbox/pkg/seccomp"
	"github.com/criyle/go-sandbox/runner"
	"github.com/criyle/go-sandbox/zzverif/kern"
	"github.com/criyle/go-sandbox/zzverif/sym"
)

// VerifC04_RunnerBuildsLauncher: the namespace runner turns its own configuration into the
// launcher's: a seccomp filter is handed on if and only if one was given (a run without a
// filter is a legal combination and must not make the runner itself fail), no_new_privs and
// the namespace flags are always requested, arguments / descriptors / limits / work directory
// arrive unchanged.
func VerifC04_RunnerBuildsLauncher() {
	kern.InstallContext()
	const pgid = 4242
	var got *forkexec.Runner
	sym.Intercept("(*github.com/criyle/go-sandbox/pkg/forkexec.Runner).Start", func(r *forkexec.Runner) (int, error) {
		c := *r
		got = &c
		return pgid, nil
	})
	reaped := false
	sym.Intercept("golang.org/x/sys/unix.Wait4", func(pid int, wstatus *unix.WaitStatus, options int, rusage *unix.Rusage) (int, error) {
		if pid == pgid && !reaped {
			reaped = true
			*wstatus = 0
			return pgid, nil
		}
		return -1, syscall.ECHILD
	})
	sym.Intercept("golang.org/x/sys/unix.Kill", func(pid int, sig syscall.Signal) error { return nil })
	r := &Runner{Args: []string{"/bin/true", "x"}, Env: []string{"A=1"}, Files: []uintptr{0, 1, 2}, WorkDir: "/w",
		Limit: runner.Limit{TimeLimit: time.Hour, MemoryLimit: 1 << 40}}
	nf := sym.Choose("filter_len", 3)
	for i := 0; i < nf; i++ {
		r.Seccomp = append(r.Seccomp, syscall.SockFilter{Code: 6, K: 0x7fff0000})
	}
	if nf == 0 && sym.Bool("empty_not_nil") {
		r.Seccomp = seccomp.Filter{}
	}
	res := r.Run(context.Background())
	sym.Reach("returned")
	sym.Assert(res.Status != runner.StatusRunnerError, "a legal configuration must not end as Runner Error")
	sym.Assert(got != nil, "the launcher was never started")
	if got == nil {
		return
	}
	if nf == 0 {
		sym.Reach("no-filter")
		sym.Assert(got.Seccomp == nil, "a filter is installed although none was given")
	} else {
		sym.Reach("filter")
		sym.Assert(got.Seccomp != nil && int(got.Seccomp.Len) == nf, "the given filter must be handed to the launcher whole")
	}
	sym.Assert(got.NoNewPrivs, "the namespace runner always requests no_new_privs")
	sym.Assert(got.CloneFlags == UnshareFlags, "the namespace runner always requests its namespace set")
	sym.Assert(len(got.Args) == 2 && got.Args[1] == "x" && len(got.Files) == 3 && got.WorkDir == "/w", "arguments, descriptors and work directory must arrive unchanged")
}
