package unshare

import (
	"syscall"
	"time"

	"golang.org/x/sys/unix"

	"github.com/criyle/go-sandbox/pkg/forkexec"
	"github.com/criyle/go-sandbox/pkg/seccomp"
	"github.com/criyle/go-sandbox/runner"
	"github.com/criyle/go-sandbox/zzverif/kern"
	"github.com/criyle/go-sandbox/zzverif/sym"
)

// VerifC11_UnshareCancel: the context is cancelled at an arbitrary instant (before the run,
// while the program runs, while it exits); the program either ends by itself with an
// arbitrary status or runs until killed.  Run must return, with the genuine verdict if the
// program ended by itself, otherwise Time Limit Exceeded - never Runner Error.
func VerifC11_UnshareCancel() {
	kern.InstallContext()
	const pgid = 4242
	r := &Runner{Args: []string{"/bin/true"}, Seccomp: seccomp.Filter{{Code: 6, K: 0x7fff0000}},
		Limit: runner.Limit{TimeLimit: time.Duration(1 << 62), MemoryLimit: runner.Size(1 << 62)}}
	sym.Intercept("(*github.com/criyle/go-sandbox/pkg/forkexec.Runner).Start", func(*forkexec.Runner) (int, error) { return pgid, nil })
	ws := sym.U32("wstatus")
	low := ws & 0x7f
	sym.Assume(ws&0xff != 0x7f)
	sym.Assume(low != 0x7f)
	sym.Assume(ws>>16 == 0)
	selfEnds := sym.Bool("ends_by_itself")
	ended, killed, reaped := false, false, false
	if selfEnds {
		go func() {
			sym.Yield()
			ended = true
		}()
	}
	kills := 0
	sym.Intercept("golang.org/x/sys/unix.Wait4", func(pid int, wstatus *unix.WaitStatus, options int, rusage *unix.Rusage) (int, error) {
		sym.Yield()
		if (pid == pgid || pid == -pgid) && !reaped {
			sym.WaitUntil(func() bool { return ended })
			reaped = true
			if killed {
				*wstatus = unix.WaitStatus(9)
			} else {
				*wstatus = unix.WaitStatus(ws)
			}
			if rusage != nil {
				*rusage = unix.Rusage{}
			}
			return pgid, nil
		}
		return -1, syscall.ECHILD
	})
	sym.Intercept("golang.org/x/sys/unix.Kill", func(pid int, sig syscall.Signal) error {
		sym.Yield()
		if pid == -pgid && sig == syscall.SIGKILL {
			kills++
			if !ended {
				ended, killed = true, true
			}
			return nil
		}
		return syscall.ESRCH
	})
	ctx, cancel := kern.WithCancel(kern.Background())
	switch sym.Choose("cancel_mode", 3) {
	case 0: // cancelled before the run starts
		cancel()
	case 1: // cancelled at some instant during the run
		go func() {
			sym.Yield()
			cancel()
		}()
	case 2: // never cancelled: the program must end by itself
		sym.Assume(selfEnds)
	}
	sym.WaitOthers()
	baseThreads := sym.ThreadsAlive()
	res := r.Run(ctx)
	// C12: with the caller's context still alive, nothing of the run may be left behind
	sym.WaitOthers()
	if !kern.Cancelled(ctx) {
		sym.Reach("context-outlives-run")
		left := sym.ThreadsAlive() - baseThreads
		if selfEnds && !ended {
			left-- // the model's own 'program ends' thread
		}
		sym.Assert(left <= 0, "a goroutine of the run is left behind while the caller's context lives on")
	}
	cancel()
	sym.Reach("returned")
	sym.Assert(reaped, "the program must be dead and reaped when Run returns")
	if killed {
		sym.Reach("killed")
		sym.Assert(res.Status == runner.StatusTimeLimitExceeded, "a cancelled run must be reported as Time Limit Exceeded")
	} else {
		sym.Reach("ended-by-itself")
		var want runner.Status
		switch {
		case low == 0 && (ws>>8)&0xff == 0:
			want = runner.StatusNormal
		case low == 0:
			want = runner.StatusNonzeroExitStatus
		case low == 24 || low == 9:
			want = runner.StatusTimeLimitExceeded
		case low == 25:
			want = runner.StatusOutputLimitExceeded
		case low == 31:
			want = runner.StatusDisallowedSyscall
		default:
			want = runner.StatusSignalled
		}
		sym.Assert(res.Status == want, "a program that ended before the kill took effect must get its genuine verdict")
	}
	sym.Assert(res.Status != runner.StatusRunnerError, "cancellation must never be reported as Runner Error")
}
