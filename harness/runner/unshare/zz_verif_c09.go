package unshare

import (
	"context"
	"syscall"
	"time"

	"golang.org/x/sys/unix"

	"github.com/criyle/go-sandbox/pkg/forkexec"
	"github.com/criyle/go-sandbox/pkg/seccomp"
	"github.com/criyle/go-sandbox/runner"
	"github.com/criyle/go-sandbox/zzverif/kern"
	"github.com/criyle/go-sandbox/zzverif/sym"
)

func refStatusOfSignal(sig int) runner.Status {
	switch sig {
	case 24, 9:
		return runner.StatusTimeLimitExceeded
	case 25:
		return runner.StatusOutputLimitExceeded
	case 31:
		return runner.StatusDisallowedSyscall
	}
	return runner.StatusSignalled
}

// runOnce drives the real Run with a modelled launcher and wait4: the main process
// terminates with an arbitrary 32-bit status word and arbitrary rusage.
func runOnce(checkLimits bool) {
	kern.InstallContext()
	const pgid = 4242
	tl := sym.I64("time_limit")
	ml := sym.U64("mem_limit")
	r := &Runner{Args: []string{"/bin/true"}, Seccomp: seccomp.Filter{{Code: 6, K: 0x7fff0000}},
		Limit: runner.Limit{TimeLimit: time.Duration(tl), MemoryLimit: runner.Size(ml)}}
	sym.Intercept("(*github.com/criyle/go-sandbox/pkg/forkexec.Runner).Start", func(*forkexec.Runner) (int, error) { return pgid, nil })
	ws := sym.U32("wstatus")
	// wait4 without WUNTRACED/ptrace only reports terminated children
	low := ws & 0x7f
	sym.Assume(ws&0xff != 0x7f && !(low == 0x7f))
	sec, usec := sym.I64("ut_sec"), sym.I64("ut_usec")
	rss := sym.I64("maxrss")
	sym.Assume(sec >= 0 && sec < (1<<33) && usec >= 0 && usec < 1000000 && rss >= 0 && rss < (1<<53))
	reaped := false
	kills := 0
	sym.Intercept("golang.org/x/sys/unix.Wait4", func(pid int, wstatus *unix.WaitStatus, options int, rusage *unix.Rusage) (int, error) {
		sym.Yield()
		if pid == pgid && !reaped {
			reaped = true
			*wstatus = unix.WaitStatus(ws)
			if rusage != nil {
				rusage.Utime = unix.Timeval{Sec: sec, Usec: usec}
				rusage.Maxrss = rss
			}
			return pgid, nil
		}
		return -1, syscall.ECHILD
	})
	sym.Intercept("golang.org/x/sys/unix.Kill", func(pid int, sig syscall.Signal) error {
		sym.Yield()
		if pid == -pgid && sig == syscall.SIGKILL {
			kills++
		}
		return nil
	})
	res := r.Run(context.Background())
	ns := sec*1000000000 + usec*1000
	bytes := uint64(rss) << 10
	over := false
	if ns > tl {
		over = true
	}
	if bytes > ml {
		over = true
	}
	sym.Assert(kills >= 1, "the process group must be killed before Run returns")
	if over {
		sym.Reach("over-limit")
		if checkLimits {
			if bytes > ml && ns > tl {
				sym.Assert(res.Status == runner.StatusMemoryLimitExceeded || res.Status == runner.StatusTimeLimitExceeded, "usage above both bounds must be a limit verdict")
			} else if bytes > ml {
				sym.Assert(res.Status == runner.StatusMemoryLimitExceeded, "memory above the bound must be Memory Limit Exceeded")
			} else {
				sym.Assert(res.Status == runner.StatusTimeLimitExceeded, "CPU time above the bound must be Time Limit Exceeded")
			}
			sym.Assert(int64(res.Time) == ns, "result must carry the measured CPU time in ns")
			sym.Assert(uint64(res.Memory) == bytes, "result must carry the measured peak memory in bytes")
		}
		return
	}
	sym.Assert(int64(res.Time) == ns && uint64(res.Memory) == bytes, "result must carry the measured usage")
	if low == 0 {
		sym.Reach("exited")
		code := int((ws >> 8) & 0xff)
		if code == 0 {
			sym.Assert(res.Status == runner.StatusNormal, "exit 0 must be Normal")
		} else {
			sym.Assert(res.Status == runner.StatusNonzeroExitStatus, "non-zero exit must be Nonzero Exit Status")
		}
		sym.Assert(res.ExitStatus == code, "exit status must be the program's exit code")
	} else {
		sym.Reach("signaled")
		sig := int(low)
		sym.Assert(res.Status == refStatusOfSignal(sig), "terminating signal classified against the documented table")
		sym.Assert(res.ExitStatus == sig, "exit status must be the signal number")
	}
	if res.Status == runner.StatusRunnerError {
		sym.Assert(res.Error != "", "Runner Error needs an explanation")
	}
}

func VerifC09_UnshareRun()   { runOnce(false) }
func VerifC08_UnshareUsage() { runOnce(true) }
