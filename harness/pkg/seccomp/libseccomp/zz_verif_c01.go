package libseccomp

import (
	"fmt"
	"syscall"

	"github.com/elastic/go-seccomp-bpf/arch"

	"github.com/criyle/go-sandbox/zzverif/sym"
)

// Kernel constants (include/uapi/linux/seccomp.h, audit.h, filter.h).
const (
	retKillProcess = 0x80000000
	retKillThread  = 0x00000000
	retTrap        = 0x00030000
	retErrno       = 0x00050000
	retTrace       = 0x7ff00000
	retLog         = 0x7ffc0000
	retAllow       = 0x7fff0000
	retActionFull  = 0xffff0000

	auditArchX86_64 = 0xc000003e
	x32Bit          = 0x40000000
	bpfMaxInsns     = 4096
)

// evalSeccompBPF is the kernel's classic-BPF evaluation of a seccomp filter over
// struct seccomp_data {int nr; __u32 arch; __u64 ip; __u64 args[6]} (little endian),
// restricted to the instruction set seccomp_check_filter() admits.  ok=false when the
// kernel would have rejected the program or the model does not know an opcode.
func evalSeccompBPF(f []syscall.SockFilter, nr, archTag uint32, ip uint64, args [6]uint64) (ret uint32, ok bool) {
	n := len(f)
	if n == 0 || n > bpfMaxInsns {
		return 0, false
	}
	word := func(off uint32) (uint32, bool) {
		switch {
		case off == 0:
			return nr, true
		case off == 4:
			return archTag, true
		case off == 8:
			return uint32(ip), true
		case off == 12:
			return uint32(ip >> 32), true
		case off >= 16 && off < 64 && off%4 == 0:
			a := args[(off-16)/8]
			if (off-16)%8 == 0 {
				return uint32(a), true
			}
			return uint32(a >> 32), true
		}
		return 0, false
	}
	var A, X uint32
	pc := 0
	for steps := 0; steps <= n; steps++ {
		if pc < 0 || pc >= n {
			return 0, false
		}
		in := f[pc]
		switch in.Code {
		case 0x20: // BPF_LD|BPF_W|BPF_ABS
			v, good := word(in.K)
			if !good {
				return 0, false
			}
			A = v
			pc++
		case 0x00: // BPF_LD|BPF_IMM
			A = in.K
			pc++
		case 0x01: // BPF_LDX|BPF_IMM
			X = in.K
			pc++
		case 0x07: // BPF_MISC|BPF_TAX
			X = A
			pc++
		case 0x87: // BPF_MISC|BPF_TXA
			A = X
			pc++
		case 0x54: // BPF_ALU|BPF_AND|BPF_K
			A &= in.K
			pc++
		case 0x05: // BPF_JMP|BPF_JA
			if in.K >= uint32(n) {
				return 0, false
			}
			pc += 1 + int(in.K)
		case 0x15, 0x25, 0x35, 0x45: // JEQ, JGT, JGE, JSET with K
			var c bool
			switch in.Code {
			case 0x15:
				c = A == in.K
			case 0x25:
				c = A > in.K
			case 0x35:
				c = A >= in.K
			case 0x45:
				c = A&in.K != 0
			}
			if c {
				pc += 1 + int(in.Jt)
			} else {
				pc += 1 + int(in.Jf)
			}
		case 0x06: // BPF_RET|BPF_K
			return in.K, true
		case 0x16: // BPF_RET|BPF_A
			return A, true
		default:
			return 0, false
		}
	}
	return 0, false
}

// kernelAccepts mirrors bpf_check_classic()/seccomp_check_filter() structural checks.
func kernelAccepts(f []syscall.SockFilter) bool {
	n := len(f)
	if n == 0 || n > bpfMaxInsns {
		return false
	}
	for pc, in := range f {
		switch in.Code {
		case 0x15, 0x25, 0x35, 0x45:
			if pc+1+int(in.Jt) >= n || pc+1+int(in.Jf) >= n {
				return false
			}
		case 0x05:
			if in.K >= uint32(n-pc-1) {
				return false
			}
		case 0x20:
			if in.K%4 != 0 || in.K >= 64 {
				return false
			}
		}
	}
	last := f[n-1].Code
	return last == 0x06 || last == 0x16
}

// refusing: the action refuses the syscall outright (never executes, never allowed/traced/logged).
func refusing(ret uint32) bool {
	a := ret & retActionFull
	return a == retErrno || a == retKillProcess || a == retKillThread || a == retTrap
}

func c01(k, m int, pairwise bool) {
	n := k + m
	names := make([]string, n)
	nums := make([]uint32, n)
	tab := map[string]int{}
	for i := 0; i < n; i++ {
		names[i] = fmt.Sprintf("s%d", i)
		if pairwise {
			nums[i] = sym.U32("sysno")
			sym.Assume(nums[i] < x32Bit)
		} else {
			// large instances: one concrete policy per shape (numbers 3*i+1), inputs stay symbolic
			nums[i] = uint32(3*i + 1)
		}
		tab[names[i]] = int(nums[i])
	}
	if pairwise {
		for i := 0; i < n; i++ {
			for j := i + 1; j < n; j++ {
				sym.Assume(nums[i] != nums[j])
			}
		}
	}
	info := &arch.Info{Name: "x86_64", ID: arch.X86_64.ID, SyscallNames: tab, SeccompMask: 0}
	sym.Intercept("github.com/elastic/go-seccomp-bpf/arch.GetInfo", func(string) (*arch.Info, error) { return info, nil })
	// interleave so that list order and numeric order are unrelated when !pairwise
	var allow, trace []string
	var allowN, traceN []uint32
	for i := 0; i < n; i++ {
		toAllow := len(allow) < k && (i%2 == 0 || len(trace) >= m)
		if toAllow {
			allow = append(allow, names[i])
			allowN = append(allowN, nums[i])
		} else {
			trace = append(trace, names[i])
			traceN = append(traceN, nums[i])
		}
	}
	def := Action(sym.U32("default"))
	b := Builder{Allow: allow, Trace: trace, Default: def}
	f, err := b.Build()
	sym.Assert(err == nil, "a policy over distinct known syscalls must assemble")
	if err != nil {
		return
	}
	sym.Assert(kernelAccepts(f), "the kernel would reject the generated program")
	fp := f.SockFprog()
	sym.Assert(int(fp.Len) == len(f) && fp.Filter == &f[0], "SockFprog must describe the whole program")

	nr := sym.U32("nr")
	at := sym.U32("arch")
	ip := sym.U64("ip")
	var args [6]uint64
	for i := range args {
		args[i] = sym.U64("arg")
	}
	ret, ok := evalSeccompBPF(f, nr, at, ip, args)
	sym.Assert(ok, "filter evaluation left the admitted instruction set or ran off the program")
	act := ret & retActionFull

	var wantDefault uint32
	switch uint32(def) & 0xffff {
	case 1:
		wantDefault = retAllow
	case 2:
		wantDefault = retErrno
	case 3:
		wantDefault = retTrace
	default:
		wantDefault = retKillProcess // unset / unknown fails closed
	}
	if at != auditArchX86_64 {
		sym.Reach("foreign-arch")
		sym.Assert(act == wantDefault, "a foreign architecture tag must get the default action")
		return
	}
	if nr >= x32Bit {
		sym.Reach("x32")
		sym.Assert(refusing(ret), "x32 syscall numbers must be refused outright")
		return
	}
	for _, a := range allowN {
		if nr == a {
			sym.Reach("allow")
			sym.Assert(ret == retAllow, "allow-listed syscall must return ALLOW")
			return
		}
	}
	for _, t := range traceN {
		if nr == t {
			sym.Reach("trace")
			sym.Assert(act == retTrace, "trace-listed syscall must return TRACE")
			return
		}
	}
	sym.Reach("default")
	sym.Assert(act == wantDefault, "unlisted syscall must get the default action (unset => KILL_PROCESS)")
}

func VerifC01_k0m0()     { c01(0, 0, true) }
func VerifC01_k1m0()     { c01(1, 0, true) }
func VerifC01_k0m1()     { c01(0, 1, true) }
func VerifC01_k1m1()     { c01(1, 1, true) }
func VerifC01_k2m1()     { c01(2, 1, true) }
func VerifC01_k3m2()     { c01(3, 2, true) }
func VerifC01_k2m2()     { c01(2, 2, true) }
func VerifC01_k130m130() { c01(130, 130, false) }
func VerifC01_k255m1()   { c01(255, 1, false) }
func VerifC01_k256m0()   { c01(256, 0, false) }
func VerifC01_k300m60()  { c01(300, 60, false) }

func VerifC01_k40m0() { c01(40, 0, false) }
func VerifC01_k80m0() { c01(80, 0, false) }

func VerifC01_k12m0() { c01(12, 0, false) }

// VerifC01_TwoBuilds: a filter must implement ITS OWN policy whatever was built before in
// the same process: build (allow A, trace T), then a second policy over the same names with
// a symbolic split between allow and trace, and validate the second program.
func VerifC01_TwoBuilds() {
	const n = 3
	names := []string{"s0", "s1", "s2"}
	nums := make([]uint32, n)
	tab := map[string]int{}
	for i := 0; i < n; i++ {
		nums[i] = sym.U32("sysno")
		sym.Assume(nums[i] < x32Bit)
		tab[names[i]] = int(nums[i])
	}
	sym.Assume(nums[0] != nums[1] && nums[0] != nums[2] && nums[1] != nums[2])
	info := &arch.Info{Name: "x86_64", ID: arch.X86_64.ID, SyscallNames: tab, SeccompMask: 0}
	sym.Intercept("github.com/elastic/go-seccomp-bpf/arch.GetInfo", func(string) (*arch.Info, error) { return info, nil })
	def := Action(sym.U32("default"))
	split1 := sym.Choose("split1", n+1)
	split2 := sym.Choose("split2", n+1)
	b1 := Builder{Allow: names[:split1], Trace: names[split1:], Default: def}
	if _, err := b1.Build(); err != nil {
		sym.Assert(false, "first policy must assemble")
		return
	}
	// the second policy has its own default action (same or different lists)
	def2 := Action(sym.U32("default2"))
	b2 := Builder{Allow: names[:split2], Trace: names[split2:], Default: def2}
	f, err := b2.Build()
	sym.Assert(err == nil, "second policy must assemble")
	if err != nil {
		return
	}
	nr := sym.U32("nr")
	var args [6]uint64
	ret, ok := evalSeccompBPF(f, nr, auditArchX86_64, 0, args)
	sym.Assert(ok, "filter evaluation failed")
	for i := 0; i < n; i++ {
		if nr == nums[i] {
			if i < split2 {
				sym.Reach("second-allow")
				sym.Assert(ret == retAllow, "second filter must ALLOW its own allow list (not an earlier policy's)")
			} else {
				sym.Reach("second-trace")
				sym.Assert(ret&retActionFull == retTrace, "second filter must TRACE its own trace list (not an earlier policy's)")
			}
			return
		}
	}
	if nr < x32Bit {
		var wantDefault uint32
		switch uint32(def2) & 0xffff {
		case 1:
			wantDefault = retAllow
		case 2:
			wantDefault = retErrno
		case 3:
			wantDefault = retTrace
		default:
			wantDefault = retKillProcess
		}
		sym.Reach("second-default")
		sym.Assert(ret&retActionFull == wantDefault, "second filter must apply its own default action (not an earlier policy's)")
	}
}
