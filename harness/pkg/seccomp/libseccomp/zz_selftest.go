package libseccomp

import (
	"fmt"
	"sort"
	"strings"

	"github.com/elastic/go-seccomp-bpf/arch"

	"github.com/criyle/go-sandbox/pkg/seccomp"
	"github.com/criyle/go-sandbox/zzverif/sym"
)

func digestFilter(f seccomp.Filter) string {
	var sb strings.Builder
	h := uint64(1469598103934665603)
	for _, in := range f {
		for _, v := range []uint64{uint64(in.Code), uint64(in.Jt), uint64(in.Jf), uint64(in.K)} {
			h ^= v
			h *= 1099511628211
		}
	}
	fmt.Fprintf(&sb, "%d:%x", len(f), h)
	return sb.String()
}

// SelfTestC01: translator validation - concrete policies over the real syscall table are
// assembled by the interpreter and by the native build; the programs must be identical.
func SelfTestC01() {
	info, err := arch.GetInfo("")
	if err != nil {
		sym.Output("arch", err.Error())
		return
	}
	var names []string
	for n := range info.SyscallNames {
		names = append(names, n)
	}
	sort.Strings(names)
	for _, sz := range [][2]int{{1, 1}, {36, 11}, {200, 40}, {256, 0}, {300, 60}} {
		b := Builder{Allow: names[:sz[0]], Trace: names[sz[0] : sz[0]+sz[1]], Default: ActionTrace}
		f, err := b.Build()
		if err != nil {
			sym.Output(fmt.Sprintf("policy_%d_%d", sz[0], sz[1]), "error: "+err.Error())
			continue
		}
		sym.Output(fmt.Sprintf("policy_%d_%d", sz[0], sz[1]), digestFilter(f))
	}
	sym.Output("action", fmt.Sprint(ToSeccompAction(ActionKill), ToSeccompAction(0), ToSeccompAction(ActionErrno|0x50000)))
}
