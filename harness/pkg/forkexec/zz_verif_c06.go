package forkexec

import (
	"github.com/criyle/go-sandbox/zzverif/kern"
	"github.com/criyle/go-sandbox/zzverif/sym"
)

const closeMarker = ^uintptr(0)

// c06: the program's descriptor table is exactly the caller's list.  The listed numbers,
// the exec/cgroup descriptors and the socketpair numbers are solver variables (any order,
// repeats, overlap with 0..n-1 and with each other).
func c06(maxN int, fdBound uintptr, part int) {
	k := kern.NewKernel()
	kern.Install(k)
	host := k.Host()
	partExec, partSync := part&1 != 0, part&2 != 0
	n := sym.Choose("nfiles", maxN+1)
	files := make([]uintptr, n)
	want := make([]*kern.FileObj, n)
	for i := 0; i < n; i++ {
		f := sym.Uintptr("file")
		sym.Assume(f < fdBound || f == closeMarker)
		files[i] = f
		if f == closeMarker {
			continue
		}
		fd := int(f)
		if ent := host.Fds[fd]; ent != nil {
			want[i] = ent.File // the same number listed twice
		} else {
			want[i] = k.NewFile("listed")
			// descriptors of the launching process are close-on-exec (Go's convention under
			// ForkLock; assumption) except possibly its stdio 0..2
			cx := true
			if fd < 3 {
				cx = sym.Bool("listed_cloexec")
			}
			host.OpenAt(fd, want[i], cx)
		}
	}
	// other descriptors of the launching process: all close-on-exec (Go's convention; assumption)
	r := &Runner{Args: []string{"/bin/prog"}, Env: []string{"A=1"}, Files: files}
	var execFile, cgFile *kern.FileObj
	if partExec {
		ef := sym.Uintptr("execfd")
		sym.Assume(ef >= 1 && ef < fdBound)
		if ent := host.Fds[int(ef)]; ent != nil {
			execFile = ent.File
		} else {
			execFile = k.NewFile("exec")
			host.OpenAt(int(ef), execFile, true)
		}
		r.ExecFile = ef
	}
	if sym.Bool("cgroupfd") {
		cf := sym.Uintptr("cgfd")
		sym.Assume(cf >= 1 && cf < fdBound)
		if ent := host.Fds[int(cf)]; ent != nil {
			cgFile = ent.File
		} else {
			cgFile = k.NewFile("cgroup")
			host.OpenAt(int(cf), cgFile, true)
		}
		r.CgroupFd = cf
	}
	if partSync {
		r.SyncFunc = func(pid int) error { return nil }
	}
	before := *r
	origFiles := append([]uintptr(nil), files...) // r.Files aliases files: compare against a copy
	hostBefore := map[int]*kern.FileObj{}
	for fd, e := range host.Fds {
		if e != nil {
			hostBefore[fd] = e.File
		}
	}
	pid, err := r.Start()
	sym.WaitOthers()
	sym.Assert(err == nil, "a launch with valid descriptors must succeed")
	if err != nil {
		return
	}
	c := k.Procs[pid]
	if c == nil || !c.Execed {
		sym.Assert(false, "the program must have been exec'ed")
		return
	}
	sym.Reach("execed")
	for i := 0; i < n; i++ {
		ent := c.ExecFds[i]
		if files[i] == closeMarker {
			sym.Reach("marker")
			sym.Assert(ent == nil, "a slot marked 'close' must be closed in the program")
			continue
		}
		sym.Assert(ent != nil && ent.File == want[i], "descriptor i of the program must be the i-th listed open file")
	}
	for fd, ent := range c.ExecFds {
		if ent != nil {
			sym.Assert(fd < n, "a descriptor that the caller did not list is open in the program")
		}
	}
	if execFile != nil {
		sym.Reach("execfile")
		sym.Assert(c.ExecAtEmptyPath && c.ExecFile == execFile, "the program image must be the caller's executable descriptor (not a scratch copy of something else)")
	}
	// the caller's configuration is untouched
	sym.Assert(r.ExecFile == before.ExecFile && r.CgroupFd == before.CgroupFd && len(r.Files) == len(before.Files),
		"Start must not modify the caller's Runner")
	for i := range files {
		sym.Assert(r.Files[i] == origFiles[i], "Start must not modify the caller's descriptor list")
	}
	// the launching process keeps its own table (the sync socketpair is closed again)
	for fd, e := range host.Fds {
		if e != nil {
			sym.Assert(hostBefore[fd] == e.File, "a descriptor leaked or changed in the launching process")
		}
	}
	for fd, f := range hostBefore {
		e := host.Fds[fd]
		sym.Assert(e != nil && e.File == f, "the launching process lost one of its descriptors")
	}
}

func VerifC06_Files2_p0() { c06(2, 6, 0) }
func VerifC06_Files2_p1() { c06(2, 6, 1) }
func VerifC06_Files2_p2() { c06(2, 6, 2) }
func VerifC06_Files2_p3() { c06(2, 6, 3) }
func VerifC06_Files3_p0() { c06(3, 8, 0) }
func VerifC06_Files3_p1() { c06(3, 8, 1) }
func VerifC06_Files3_p2() { c06(3, 8, 2) }
func VerifC06_Files3_p3() { c06(3, 8, 3) }
