package forkexec

import (
	"syscall"

	"github.com/criyle/go-sandbox/zzverif/kern"
	"github.com/criyle/go-sandbox/zzverif/sym"
)

// VerifC16_LauncherDiesDuringSync: the controlling process is SIGKILLed inside the sync
// window (while the child waits for the acknowledgement): its end of the sync channel closes,
// the child's read returns 0 bytes.  The child must take that as a refusal: it never execs
// the program and does not stay around (plain, user-namespace and ptrace+seccomp launches).
func VerifC16_LauncherDiesDuringSync() {
	k := kern.NewKernel()
	kern.Install(k)
	host := k.Host()
	for i := 0; i < 3; i++ {
		host.OpenAt(i, k.NewFile("stdio"), false)
	}
	hostPid := sym.Pid()
	sym.SetPid(9999) // the observer survives the launcher
	var child *kern.Proc
	mode := sym.Choose("launch_mode", 3)
	go func() {
		sym.SetPid(hostPid)
		r := &Runner{Args: []string{"/bin/prog"}, Env: []string{"A=1"}, Files: []uintptr{0, 1, 2}}
		switch mode {
		case 1:
			r.CloneFlags = syscall.CLONE_NEWUSER | syscall.CLONE_NEWNS | syscall.CLONE_NEWPID
		case 2:
			f := []syscall.SockFilter{{Code: 6, K: 0x7fff0000}}
			r.Ptrace, r.Seccomp = true, &syscall.SockFprog{Len: 1, Filter: &f[0]}
		}
		r.SyncFunc = func(pid int) error {
			child = k.Procs[pid]
			sym.Reach("launcher-killed-in-sync-window")
			k.KillGroup(host.Pid, syscall.SIGKILL)
			sym.ExitThread(137)
			return nil
		}
		r.Start()
	}()
	sym.WaitOthers()
	sym.Assert(child != nil, "the sync callback never ran")
	if child == nil {
		return
	}
	sym.Assert(!child.Execed, "the program was started although its launcher died before acknowledging the sync")
	sym.Assert(child.State != kern.StRunning, "the child of a dead launcher is left alive (waiting or stopped forever)")
}
