package forkexec

import (
	"syscall"

	"golang.org/x/sys/unix"

	"github.com/criyle/go-sandbox/pkg/mount"
	"github.com/criyle/go-sandbox/pkg/rlimit"
	"github.com/criyle/go-sandbox/zzverif/kern"
	"github.com/criyle/go-sandbox/zzverif/sym"
)

const allSecbitsNoRoot = _SECURE_NOROOT | _SECURE_NOROOT_LOCKED

type launch struct {
	k              *kern.Kernel
	r              *Runner
	syncCalls      int
	syncPid        int
	syncErr        error
	syncChild      *kern.Proc
	syncBlocked    bool
	syncExeced     bool
	syncAckPending bool
	filter         *syscall.SockFprog
	execFile       *kern.FileObj
	cgroupFile     *kern.FileObj
	stdio          [3]*kern.FileObj
}

func cstr(s string) *byte {
	b := append([]byte(s), 0)
	return &b[0]
}

// newLaunch builds a Runner whose every option is a solver variable (within the bounds of
// the harness) on top of a fresh kernel model with a root host process.
func newLaunch(withMounts, withRlimits bool) *launch {
	return newLaunchX(withMounts, withRlimits, false)
}

// newLaunchX: with bundle=true the orthogonal options (groups, gid map, cgroup fd, exec fd,
// workdir, host/domain name, pivot root, ctty) are switched on or off together by one
// symbolic flag instead of independently.
func newLaunchX(withMounts, withRlimits, bundle bool) *launch {
	k := kern.NewKernel()
	kern.Install(k)
	l := &launch{k: k}
	host := k.Host()
	for i := 0; i < 3; i++ {
		l.stdio[i] = k.NewFile("stdio")
		host.OpenAt(i, l.stdio[i], false)
	}
	r := &Runner{Args: []string{"/bin/prog", "arg"}, Env: []string{"A=1"}, Files: []uintptr{0, 1, 2}}
	l.r = r
	r.CloneFlags = sym.Uintptr("cloneflags")
	extras := false
	if bundle {
		extras = sym.Bool("extras")
	}
	opt := func(name string) bool {
		if bundle {
			return extras
		}
		return sym.Bool(name)
	}
	if sym.Bool("cred") {
		r.Credential = &syscall.Credential{Uid: sym.U32("uid"), Gid: sym.U32("gid"), NoSetGroups: sym.Bool("nosetgroups")}
		if opt("groups") {
			r.Credential.Groups = []uint32{sym.U32("group"), sym.U32("group")}
		}
	}
	if sym.Bool("seccomp") {
		f := []syscall.SockFilter{{Code: 6, K: 0x7ff0beef}}
		l.filter = &syscall.SockFprog{Len: 1, Filter: &f[0]}
		r.Seccomp = l.filter
	}
	if sym.Bool("syncfunc") {
		r.SyncFunc = func(pid int) error {
			l.syncCalls++
			l.syncPid = pid
			if c := k.Procs[pid]; c != nil {
				l.syncChild = c
				l.syncBlocked = c.SyncReadBlocked || c.State != kern.StRunning // waiting for the ack, or already dead
				l.syncExeced = c.Execed
				l.syncAckPending = k.AckPending(c)
			}
			return l.syncErr
		}
	}
	r.Ptrace = sym.Bool("ptrace")
	r.NoNewPrivs = sym.Bool("nnp")
	r.StopBeforeSeccomp = sym.Bool("stopbefore")
	r.DropCaps = sym.Bool("dropcaps")
	r.UnshareCgroupAfterSync = sym.Bool("unsharecg")
	r.CTTY = opt("ctty")
	r.GIDMappingsEnableSetgroups = sym.Bool("gidsetgroups")
	if opt("gidmap") {
		r.GIDMappings = []syscall.SysProcIDMap{{ContainerID: 0, HostID: 1000, Size: 1}}
	}
	if opt("cgroupfd") {
		l.cgroupFile = k.NewFile("cgroup")
		host.OpenAt(20, l.cgroupFile, true)
		r.CgroupFd = 20
	}
	if opt("execfile") {
		l.execFile = k.NewFile("execfile")
		host.OpenAt(21, l.execFile, true)
		r.ExecFile = 21
	}
	if opt("workdir") {
		r.WorkDir = "/w"
	}
	if opt("hostname") {
		r.HostName = "box"
	}
	if opt("domainname") {
		r.DomainName = "dom"
	}
	if opt("pivot") {
		r.PivotRoot = "/newroot"
	}
	if withMounts && sym.Bool("mount") {
		r.Mounts = []mount.SyscallParams{
			{Source: cstr("/usr"), Target: cstr("usr"), FsType: cstr(""), Data: cstr(""),
				Flags: uintptr(syscall.MS_BIND | syscall.MS_NOSUID | syscall.MS_PRIVATE | syscall.MS_REC | syscall.MS_RDONLY), Prefixes: []*byte{cstr("usr")}},
			{Source: cstr("tmpfs"), Target: cstr("a/b/w"), FsType: cstr("tmpfs"), Data: cstr(""),
				Flags: uintptr(syscall.MS_NOSUID | syscall.MS_NODEV), Prefixes: []*byte{cstr("a"), cstr("a/b"), cstr("a/b/w")}},
		}
	}
	if withRlimits && sym.Bool("rlimit") {
		r.RLimits = []rlimit.RLimit{{Res: syscall.RLIMIT_CPU, Rlim: syscall.Rlimit{Cur: 1, Max: 2}}, {Res: syscall.RLIMIT_NOFILE, Rlim: syscall.Rlimit{Cur: 16, Max: 16}}}
	}
	return l
}

// VerifC04_Options: for every option combination the program starts in exactly the
// requested security state (checked on the model process at its successful exec).
func VerifC04_Options() { c04Options(false, -1) }

// VerifC04_OptionsBundled: full cross product of the interacting options (credential,
// drop-caps, no-new-privs, seccomp, ptrace, stop-before-seccomp, sync callback, late cgroup
// unshare, clone flags) x orthogonal options all-off / all-on.
func VerifC04_OptionsBundled_p0() { c04Options(true, 0) }
func VerifC04_OptionsBundled_p1() { c04Options(true, 1) }
func VerifC04_OptionsBundled_p2() { c04Options(true, 2) }
func VerifC04_OptionsBundled_p3() { c04Options(true, 3) }

// part (0..3) fixes (ptrace, stop-before-seccomp) so that the four quarters run in parallel.
func c04Options(bundle bool, part int) {
	l := newLaunchX(false, false, bundle)
	k, r := l.k, l.r
	if part >= 0 {
		sym.Assume(r.Ptrace == (part&1 != 0))
		sym.Assume(r.StopBeforeSeccomp == (part&2 != 0))
	}
	pid, err := r.Start()
	sym.WaitOthers()
	sym.Assert(err == nil, "with no failing step every option set must launch (a step fails because of ordering?)")
	if err != nil {
		return
	}
	c := k.Procs[pid]
	sym.Assert(c != nil, "Start must return the pid clone returned")
	if c == nil {
		return
	}
	stopsFirst := r.StopBeforeSeccomp || (r.Seccomp != nil && r.Ptrace)
	sym.Assert(c.Execed, "the program must have been exec'ed when the launch sequence ends")
	if !c.Execed {
		return
	}
	sym.Reach("execed")
	// capabilities
	if r.Credential != nil || r.DropCaps {
		sym.Reach("drop-caps")
		sym.Assert(c.CapEff == 0 && c.CapPrm == 0 && c.CapInh == 0 && c.CapAmb == 0, "all capability sets must be empty when credentials or cap dropping were requested")
		sym.Assert(c.Securebits&allSecbitsNoRoot == allSecbitsNoRoot, "SECBIT_NOROOT(+LOCKED) must be set so that exec grants root nothing")
		sym.Assert(c.ExecCapEff == 0 && c.ExecCapPrm == 0, "the exec'ed program must hold no capability")
	}
	// no_new_privs
	if r.NoNewPrivs || r.Seccomp != nil {
		sym.Reach("nnp")
		sym.Assert(c.NNP, "no_new_privs must be set when requested or when a filter is given")
	}
	// seccomp filter iff given
	if r.Seccomp != nil {
		sym.Reach("filter")
		sym.Assert(len(c.Filters) == 1, "exactly one seccomp filter must be installed")
		if len(c.Filters) == 1 {
			fp := (*syscall.SockFprog)(c.Filters[0])
			sym.Assert(fp != nil && fp.Len == 1 && fp.Filter != nil && fp.Filter.K == 0x7ff0beef, "the installed filter must be the given one")
			sym.Assert(c.FilterFlags[0]&SECCOMP_FILTER_FLAG_TSYNC != 0, "the filter must be installed with TSYNC")
		}
		sym.Assert(c.PrivAfterFilter == "", "no privileged launch step may follow the filter load")
	} else {
		sym.Assert(len(c.Filters) == 0, "no filter must be installed when none was given")
	}
	// identity
	if cr := r.Credential; cr != nil {
		sym.Assert(c.Uid == cr.Uid && c.Gid == cr.Gid, "uid/gid must be the requested ones")
		skipGroups := cr.NoSetGroups || (r.GIDMappings != nil && !r.GIDMappingsEnableSetgroups && len(cr.Groups) == 0)
		if !skipGroups {
			sym.Reach("setgroups")
			sym.Assert(c.SetgroupsCalled && len(c.Groups) == len(cr.Groups), "supplementary groups must be the requested list")
			for i := range cr.Groups {
				if i < len(c.Groups) {
					sym.Assert(c.Groups[i] == cr.Groups[i], "supplementary group differs")
				}
			}
		}
		sym.Assert(c.IndexOf("setgid") < c.IndexOf("setuid"), "gid must be changed before uid")
	}
	sym.Assert(c.Sid == c.Pid && c.Pgid == c.Pid, "the program must lead its own session")
	if r.WorkDir != "" {
		sym.Assert(c.Cwd == r.WorkDir, "working directory must be the requested one")
	}
	if r.HostName != "" {
		sym.Assert(c.Host == r.HostName, "host name must be the requested one")
	}
	if r.DomainName != "" {
		sym.Assert(c.Domain == r.DomainName, "domain name must be the requested one")
	}
	if r.CTTY {
		sym.Assert(c.CTTY, "controlling terminal must be set when requested")
	}
	// namespaces
	wantNS := r.CloneFlags & UnshareFlags
	sym.Assert(c.NS == wantNS, "new namespaces must be exactly the requested clone flags")
	if r.UnshareCgroupAfterSync {
		sym.Assert(c.Called("unshare"), "late cgroup-namespace unshare requested but not attempted")
	}
	if r.CgroupFd > 0 {
		sym.Reach("into-cgroup")
		sym.Assert(c.IntoCgroup == int(r.CgroupFd) && c.CloneFlags&unix.CLONE_INTO_CGROUP != 0, "the child must be cloned into the given cgroup")
	} else {
		sym.Assert(c.IntoCgroup == 0, "clone-into-cgroup without a cgroup descriptor")
	}
	if l.execFile != nil {
		sym.Reach("fexecve")
		sym.Assert(c.ExecAtEmptyPath && c.ExecPath == "", "an executable descriptor must be exec'ed with execveat(fd, \"\", AT_EMPTY_PATH)")
	} else {
		sym.Assert(c.ExecPath == "/bin/prog", "the program path must be argv[0]")
	}
	// ptrace ordering (C03-g): the tracer must be attachable before the first filtered syscall
	if r.Ptrace {
		sym.Assert(c.Traceme, "PTRACE_TRACEME must have been requested")
	}
	if stopsFirst {
		sym.Reach("stops-first")
		sym.Assert(c.SelfStopped, "the child must stop itself for the tracer")
		if r.Seccomp != nil && c.Called("seccomp") {
			sym.Assert(c.IndexOf("stop-self") < c.IndexOf("seccomp"), "the self-stop must precede the filter load")
			if r.Ptrace {
				sym.Assert(c.IndexOf("ptrace(traceme)") < c.IndexOf("stop-self"), "PTRACE_TRACEME must precede the self-stop")
			}
		}
	}
	// sync gate
	if r.SyncFunc != nil {
		sym.Reach("sync")
		sym.Assert(l.syncCalls == 1, "the sync callback must run exactly once")
		sym.Assert(l.syncPid == pid, "the sync callback must get the child's pid")
		sym.Assert(l.syncBlocked && !l.syncExeced, "the sync callback must run while the child waits and before exec")
		sym.Assert(!l.syncAckPending, "the acknowledgement was sent to the child before the sync callback ran")
	}
}
