package forkexec

import (
	"errors"
	"syscall"

	"github.com/criyle/go-sandbox/zzverif/sym"
)

// expectedLocs: which ErrorLocation may name a failure injected at the n-th call of a site
// (written from errloc_linux.go's names; where two names describe the step both are accepted).
func expectedLocs(site string) []ErrorLocation {
	switch site {
	case "clone":
		return []ErrorLocation{LocClone}
	case "close":
		return []ErrorLocation{LocCloseWrite}
	case "read":
		return []ErrorLocation{LocUnshareUserRead, LocSyncRead}
	case "write":
		return []ErrorLocation{LocSyncWrite}
	case "open_idmap", "write_idmap":
		return []ErrorLocation{LocUnshareUserRead}
	case "securebits":
		return []ErrorLocation{LocKeepCapability, LocDropCapability}
	case "setgroups":
		return []ErrorLocation{LocSetGroups}
	case "setgid":
		return []ErrorLocation{LocSetGid}
	case "setuid":
		return []ErrorLocation{LocSetUid}
	case "dup3":
		return []ErrorLocation{LocDup3}
	case "fcntl":
		return []ErrorLocation{LocFcntl}
	case "setsid":
		return []ErrorLocation{LocSetSid}
	case "ioctl":
		return []ErrorLocation{LocIoctl}
	case "mount":
		return []ErrorLocation{LocMountRoot, LocMountTmpfs, LocMount, LocPivotRoot, LocMountRootReadonly}
	case "chdir":
		return []ErrorLocation{LocMountChdir, LocChdir}
	case "mkdirat", "mknodat":
		return []ErrorLocation{LocMountMkdir, LocPivotRoot}
	case "statfs":
		return []ErrorLocation{LocMount}
	case "pivot_root":
		return []ErrorLocation{LocPivotRoot}
	case "umount2":
		return []ErrorLocation{LocPivotRoot, LocUmount}
	case "unlinkat":
		return []ErrorLocation{LocPivotRoot, LocUnlink}
	case "prlimit64":
		return []ErrorLocation{LocSetRlimit}
	case "nnp":
		return []ErrorLocation{LocSetNoNewPrivs}
	case "capset":
		return []ErrorLocation{LocSetCap}
	case "ptraceme":
		return []ErrorLocation{LocPtraceMe}
	case "kill":
		return []ErrorLocation{LocStop}
	case "seccomp":
		return []ErrorLocation{LocSeccomp}
	case "execve":
		return []ErrorLocation{LocExecve}
	}
	return nil
}

// expectedIndex: for the indexed locations, which entry of r.Mounts / r.RLimits was being
// processed when the occ-th call of the site failed (entry layout fixed by newLaunchX).
func expectedIndex(r *Runner, site string, occ int, loc ErrorLocation) (int, bool) {
	switch {
	case site == "prlimit64" && loc == LocSetRlimit:
		return occ - 1, true
	case site == "mkdirat" && loc == LocMountMkdir:
		// prefixes: mount 0 has 1 component, mount 1 has 3
		if occ == 1 {
			return 0, true
		}
		return 1, true
	case site == "mount" && loc == LocMount:
		pre := 0
		if r.CloneFlags&syscall.CLONE_NEWNS != 0 {
			pre++
		}
		if r.PivotRoot != "" {
			pre++
		}
		// mount 0 is a read-only bind: mount + remount; mount 1 a tmpfs: one call
		if occ-pre <= 2 {
			return 0, true
		}
		return 1, true
	case site == "statfs" && loc == LocMount:
		return 0, true
	}
	return 0, false
}

// c07: one fault (arbitrary errno) injected at an arbitrary launch step, or a failing sync
// callback: the program never runs, the error names the failing step, the child is killed
// and reaped and the sync channel is closed when Start returns.
func c07(part int) { c07only(part, "") }

// VerifC08_RefusedLimit: a limit the kernel refuses (prlimit64 failing with any errno, e.g.
// EPERM for a hard limit above the inherited one) stops the launch and names the entry: the
// program never runs with limits other than the configured ones.
func VerifC08_RefusedLimit() { c07only(0, "prlimit64") }

// VerifC04_IdMapRefused: the kernel refusing the uid/gid map (or setgroups) file of a new user
// namespace stops the launch: the program never runs in a namespace without its maps.
func VerifC04_IdMapRefused() { c07only(0, "open_idmap,write_idmap") }

func c07only(part int, only string) {
	l := newLaunchX(true, true, true)
	k, r := l.k, l.r
	k.FaultOnly = only
	if only != "" {
		sym.Assume(!r.StopBeforeSeccomp) // Start waits for the exec (the early-return configurations are C07's subject)
	}
	sym.Assume(r.Ptrace == (part&1 != 0))
	sym.Assume((r.SyncFunc != nil) == (part&2 != 0))
	// configurations: ptrace x seccomp x user namespace x late cgroup unshare x sync callback;
	// every optional step is switched on so that it can fail
	sym.Assume(r.Credential != nil && len(r.Credential.Groups) > 0 && len(r.Mounts) > 0 && len(r.RLimits) > 0 && r.PivotRoot != "")
	sym.Assume(!r.Credential.NoSetGroups)
	sym.Assume(!r.NoNewPrivs)
	sym.Assume(!r.DropCaps)
	sym.Assume(r.GIDMappingsEnableSetgroups)
	sym.Assume(r.CloneFlags == 0 || r.CloneFlags == syscall.CLONE_NEWUSER|syscall.CLONE_NEWNS|syscall.CLONE_NEWPID|syscall.CLONE_NEWUTS)
	k.FaultsLeft = 1
	cbFails := false
	if r.SyncFunc != nil && sym.Bool("callback_fails") {
		cbFails = true
		l.syncErr = errors.New("callback refused")
	}
	host := k.Host()
	hostBefore := map[int]bool{}
	for fd, e := range host.Fds {
		if e != nil {
			hostBefore[fd] = true
		}
	}
	pid, err := r.Start()
	sym.WaitOthers()
	earlyReturn := r.StopBeforeSeccomp || (r.Seccomp != nil && r.Ptrace)
	injected := k.FaultAt != ""
	// the sync callback is a gate: it runs only while the child waits, before exec
	if l.syncCalls > 0 {
		sym.Assert(l.syncCalls == 1, "the sync callback must run at most once")
		sym.Assert(l.syncChild != nil && l.syncBlocked && !l.syncExeced, "the sync callback must run while the child is blocked before exec")
		sym.Assert(!l.syncAckPending, "the acknowledgement was sent to the child before the sync callback ran")
	}
	// the launching process' descriptor table is back to what it was
	for fd, e := range host.Fds {
		if e != nil && !earlyReturn {
			sym.Assert(hostBefore[fd], "a sync-channel descriptor is still open in the launching process")
		}
	}
	if err != nil {
		sym.Reach("start-error")
		sym.Assert(pid == 0, "a failed Start must not return a pid")
		for _, c := range k.Procs {
			if c.PPid == host.Pid {
				sym.Assert(!c.Execed, "the program ran although the launch failed")
				sym.Assert(c.State == 2, "the child must be killed and reaped when a failed Start returns")
			}
		}
		if cbFails && !injected {
			sym.Reach("callback-error")
			return
		}
		if !injected {
			sym.Assert(false, "Start failed although no step failed")
			return
		}
		if k.FaultAt == "socketpair" {
			return
		}
		var ce ChildError
		if errors.As(err, &ce) {
			ok := false
			for _, loc := range expectedLocs(k.FaultAt) {
				if ce.Location == loc {
					ok = true
				}
			}
			sym.Extra("site", k.FaultAt)
			sym.Assert(ok, "the error does not name the failing step: site "+k.FaultAt+" reported as "+ce.Location.String())
			sym.Assert(ce.Err == k.FaultErrno, "the error must carry the errno of the failing step")
			if want, ok := expectedIndex(r, k.FaultAt, k.FaultIdx, ce.Location); ok {
				sym.Reach("indexed-step")
				sym.Assert(ce.Index == want, "the error must carry the index of the failing mount / limit entry")
			}
		} else if !cbFails {
			sym.Assert(false, "a failed launch step must be reported as a ChildError")
		}
		return
	}
	sym.Reach("start-ok")
	c := k.Procs[pid]
	if c == nil {
		sym.Assert(false, "Start returned a pid that is not the child")
		return
	}
	if cbFails && l.syncCalls > 0 {
		sym.Assert(false, "Start succeeded although the sync callback failed")
	}
	if injected && !c.Execed {
		sym.Reach("silent-failure")
		// the failing step is allowed to be one whose result the launcher deliberately ignores,
		// or to lie after the point where Start hands over to the tracer
		ignorable := k.FaultAt == "close" && k.FaultIdx > 1
		if earlyReturn {
			// Start hands the stopped child over to the tracer and returns: later failures are
			// not reported by it (known finding, see known_findings.json)
			sym.Extra("class", "early-return-handover")
			sym.Assert(ignorable, "a launch step failed but Start (which returns early for a tracer-driven child) reported success")
		} else {
			sym.Assert(ignorable, "a launch step failed but Start reported success")
		}
	}
	if injected && c.Execed {
		// the program runs although a launch step failed: only steps whose result the launcher
		// deliberately ignores may be skipped over
		sym.Reach("ran-despite-fault")
		sym.Extra("site", k.FaultAt)
		ignorable := k.FaultAt == "close"
		sym.Assert(ignorable, "the program was started although the launch step "+k.FaultAt+" had failed")
	}
	if !injected && !earlyReturn {
		sym.Assert(c.Execed, "Start returned success before the program was exec'ed")
	}
	var _ = syscall.EPERM
}

func VerifC07_Faults_p0() { c07(0) }
func VerifC07_Faults_p1() { c07(1) }
func VerifC07_Faults_p2() { c07(2) }
func VerifC07_Faults_p3() { c07(3) }
