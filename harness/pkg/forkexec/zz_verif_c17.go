package forkexec

import (
	"syscall"

	"github.com/criyle/go-sandbox/zzverif/kern"
	"github.com/criyle/go-sandbox/zzverif/sym"
)

// VerifC17_ForkVsDescriptorCreator: while one goroutine launches a program, another goroutine
// of the same host process (another run, the Go runtime, a library) creates a descriptor the
// way the standard library does: under ForkLock.RLock the descriptor exists for an instant
// without close-on-exec.  The launcher's fork must exclude that window (every interleaving
// within the delay bound): the program must not receive the other goroutine's descriptor.
func VerifC17_ForkVsDescriptorCreator() {
	k := kern.NewKernel()
	kern.Install(k)
	host := k.Host()
	for i := 0; i < 3; i++ {
		host.OpenAt(i, k.NewFile("stdio"), false)
	}
	other := k.NewFile("another-run's-descriptor")
	otherFd := 50
	useVfork := sym.Bool("plain_vfork_launch")
	r := &Runner{Args: []string{"/bin/prog"}, Env: []string{"A=1"}, Files: []uintptr{0, 1, 2}}
	if !useVfork {
		r.CloneFlags = syscall.CLONE_NEWUSER | syscall.CLONE_NEWNS | syscall.CLONE_NEWPID
	}
	created := false
	go func() {
		// syscall.forkExecPipe / os.Pipe-before-pipe2 / net's accept fallback: RLock, create, set FD_CLOEXEC, RUnlock
		syscall.ForkLock.RLock()
		sym.Yield()
		for host.Fds[otherFd] != nil { // the kernel hands out a free number
			otherFd++
		}
		host.OpenAt(otherFd, other, false)
		created = true
		sym.Yield()
		host.Fds[otherFd].Cloexec = true
		syscall.ForkLock.RUnlock()
	}()
	pid, err := r.Start()
	sym.WaitOthers()
	sym.Assert(err == nil, "the launch must succeed")
	c := k.Procs[pid]
	if err != nil || c == nil || !c.Execed {
		return
	}
	sym.Reach("execed")
	if created {
		sym.Reach("creator-ran")
	}
	for fd, e := range c.ExecFds {
		sym.Assert(e.File != other, "the program inherited a descriptor another goroutine was just creating (fork not excluded by ForkLock)")
		sym.Assert(fd < 3, "the program's descriptor table must be exactly the caller's list")
	}
}
