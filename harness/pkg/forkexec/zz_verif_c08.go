package forkexec

import (
	"syscall"

	"github.com/criyle/go-sandbox/pkg/rlimit"
	"github.com/criyle/go-sandbox/zzverif/kern"
	"github.com/criyle/go-sandbox/zzverif/sym"
)

// VerifC08_LimitsInForce: the record prepared from symbolic limits is applied by the child:
// at exec every configured resource has exactly the configured (soft, hard) pair and every
// other resource keeps the inherited value.
func VerifC08_LimitsInForce() {
	k := kern.NewKernel()
	kern.Install(k)
	host := k.Host()
	for i := 0; i < 3; i++ {
		host.OpenAt(i, k.NewFile("stdio"), false)
	}
	inheritedCur, inheritedMax := sym.U64("inherited_cur"), sym.U64("inherited_max")
	for _, res := range []int{syscall.RLIMIT_CPU, syscall.RLIMIT_DATA, syscall.RLIMIT_FSIZE, syscall.RLIMIT_STACK, syscall.RLIMIT_AS, syscall.RLIMIT_NOFILE, syscall.RLIMIT_CORE} {
		host.Rlim[res] = syscall.Rlimit{Cur: inheritedCur, Max: inheritedMax}
	}
	rl := rlimit.RLimits{CPU: sym.U64("cpu"), CPUHard: sym.U64("cpuhard"), Data: sym.U64("data"), FileSize: sym.U64("fsize"),
		Stack: sym.U64("stack"), AddressSpace: sym.U64("as"), OpenFile: sym.U64("nofile"), DisableCore: sym.Bool("nocore")}
	r := &Runner{Args: []string{"/bin/prog"}, Env: []string{"A=1"}, Files: []uintptr{0, 1, 2}, RLimits: rl.PrepareRLimit()}
	pid, err := r.Start()
	sym.WaitOthers()
	sym.Assert(err == nil, "valid limits must be accepted")
	c := k.Procs[pid]
	if err != nil || c == nil || !c.Execed {
		return
	}
	sym.Reach("execed")
	hard := rl.CPUHard
	if hard < rl.CPU {
		hard = rl.CPU
	}
	check := func(res int, on bool, cur, max uint64) {
		got := c.Rlim[res]
		if on {
			sym.Reach("configured")
			sym.Assert(got.Cur == cur && got.Max == max, "a configured limit is not in force with the configured soft and hard values")
		} else {
			sym.Reach("inherited")
			sym.Assert(got.Cur == inheritedCur && got.Max == inheritedMax, "a limit that was not configured must be inherited unchanged")
		}
	}
	check(syscall.RLIMIT_CPU, rl.CPU > 0, rl.CPU, hard)
	check(syscall.RLIMIT_DATA, rl.Data > 0, rl.Data, rl.Data)
	check(syscall.RLIMIT_FSIZE, rl.FileSize > 0, rl.FileSize, rl.FileSize)
	check(syscall.RLIMIT_STACK, rl.Stack > 0, rl.Stack, rl.Stack)
	check(syscall.RLIMIT_AS, rl.AddressSpace > 0, rl.AddressSpace, rl.AddressSpace)
	check(syscall.RLIMIT_NOFILE, rl.OpenFile > 0, rl.OpenFile, rl.OpenFile)
	check(syscall.RLIMIT_CORE, rl.DisableCore, 0, 0)
}
