package forkexec

import (
	"io/fs"
	"os"
	"syscall"
	"time"

	"github.com/criyle/go-sandbox/pkg/mount"
	"github.com/criyle/go-sandbox/zzverif/kern"
	"github.com/criyle/go-sandbox/zzverif/sym"
)

type c05info struct{ dir bool }

func (f c05info) Name() string       { return "x" }
func (f c05info) Size() int64        { return 0 }
func (f c05info) Mode() os.FileMode  { return 0755 }
func (f c05info) ModTime() time.Time { return time.Time{} }
func (f c05info) IsDir() bool        { return f.dir }
func (f c05info) Sys() any           { return nil }

const roMask = syscall.MS_NOSUID | syscall.MS_NODEV | syscall.MS_NOEXEC | syscall.MS_NOATIME | syscall.MS_NODIRATIME | syscall.MS_RELATIME

// mountOracle judges the recorded mount(2) calls of one implementation against K-MNT:
// a plain bind ignores MS_RDONLY (needs MS_REMOUNT|MS_BIND|MS_RDONLY), such a remount must
// keep every flag that is locked on the source (else EPERM in a user namespace), fs mounts
// honour MS_RDONLY directly.
func mountOracle(calls []kern.Mount, target string, wantRO bool, isBind bool, srcFlags uintptr) {
	var first, re *kern.Mount
	for i := range calls {
		c := &calls[i]
		if c.Target != target {
			continue
		}
		if c.Remount {
			re = c
		} else if first == nil {
			first = c
		}
	}
	sym.Assert(first != nil, "a configured mount was never performed: "+target)
	if first == nil {
		return
	}
	effRO := false
	if isBind {
		sym.Assert(first.Flags&syscall.MS_BIND != 0, "a bind entry must be mounted with MS_BIND")
		if re != nil {
			sym.Assert(re.Flags&syscall.MS_BIND != 0 && re.Flags&syscall.MS_REMOUNT != 0, "a bind remount needs MS_REMOUNT|MS_BIND")
			effRO = re.Flags&syscall.MS_RDONLY != 0
			sym.Assert(re.Flags&(srcFlags&roMask) == srcFlags&roMask, "the read-only remount drops a flag that is locked on the source (EPERM)")
		}
	} else {
		effRO = first.Flags&syscall.MS_RDONLY != 0
	}
	if wantRO {
		sym.Reach("read-only-entry")
		sym.Assert(effRO, "a mount declared read-only is writable: "+target)
	} else {
		sym.Reach("writable-entry")
		sym.Assert(!effRO, "a mount declared writable is read-only: "+target)
	}
}

// VerifC05_RawMounts: the in-child mount sequence for a mount table built by the real
// Builder: bind ro/rw of a directory or a file (symbolic), tmpfs, proc ro/rw; the source's
// statfs flags are a 64-bit solver variable.
func VerifC05_RawMounts() {
	k := kern.NewKernel()
	kern.Install(k)
	host := k.Host()
	for i := 0; i < 3; i++ {
		host.OpenAt(i, k.NewFile("stdio"), false)
	}
	srcIsFile := sym.Bool("src_is_file")
	sym.Intercept("os.Stat", func(p string) (os.FileInfo, error) {
		if p == "/missing" {
			return nil, &fs.PathError{Op: "stat", Path: p, Err: syscall.ENOENT}
		}
		return c05info{dir: !(srcIsFile && p == "/data/src")}, nil
	})
	roBind, rwProc := sym.Bool("bind_readonly"), sym.Bool("proc_writable")
	// a hand-built bind entry (config loaders / WithMount): any flag word with MS_BIND
	handFlags := uintptr(sym.U64("hand_flags"))
	sym.Assume(handFlags&syscall.MS_BIND != 0)
	sym.Assume(handFlags&^(syscall.MS_BIND|syscall.MS_RDONLY|syscall.MS_NOSUID|syscall.MS_NODEV|syscall.MS_NOEXEC|syscall.MS_PRIVATE|syscall.MS_REC|syscall.MS_NOATIME) == 0)
	b := mount.NewBuilder().
		WithBind("/data/src", "data/in", roBind).
		WithBind("/missing", "gone", true).
		WithTmpfs("w", "size=1m").
		WithProcRW(rwProc).
		WithMount(mount.Mount{Source: "/data/src2", Target: "hand", Flags: handFlags}).
		FilterNotExist()
	params, err := b.Build()
	sym.Assert(err == nil, "the mount table must build")
	if err != nil {
		return
	}
	sym.Assert(len(params) == 4, "a bind mount whose source does not exist must be filtered out")
	r := &Runner{Args: []string{"/bin/prog"}, Env: []string{"A=1"}, Files: []uintptr{0, 1, 2},
		CloneFlags: syscall.CLONE_NEWNS | syscall.CLONE_NEWUSER | syscall.CLONE_NEWPID, Mounts: params, PivotRoot: "/newroot", WorkDir: "/w",
		NoNewPrivs: true, DropCaps: true}
	pid, err := r.Start()
	sym.WaitOthers()
	sym.Assert(err == nil, "the launch must succeed")
	c := k.Procs[pid]
	if err != nil || c == nil || !c.Execed {
		return
	}
	sym.Reach("execed")
	mountOracle(c.Mounts, "data/in", roBind, true, uintptr(k.StatfsFlags["/data/src"]))
	mountOracle(c.Mounts, "hand", handFlags&syscall.MS_RDONLY != 0, true, uintptr(k.StatfsFlags["/data/src2"]))
	mountOracle(c.Mounts, "w", false, false, 0)
	mountOracle(c.Mounts, "proc", !rwProc, false, 0)
	// the root: private propagation, a tmpfs, pivoted, old root detached and removed, read-only
	sym.Assert(c.RootPrivate, "mount propagation of / must be made private before anything is mounted")
	sym.Assert(len(c.Mounts) > 1 && c.Mounts[1].Target == "/newroot" && c.Mounts[1].FsType == "tmpfs", "the new root must be a fresh tmpfs")
	sym.Assert(c.Pivoted && c.OldRootDetached && c.OldRootRemoved, "the old root must be pivoted away, detached (MNT_DETACH) and its mount point removed")
	sym.Assert(c.RootReadonly, "the new root itself must be remounted read-only")
	// nothing but the configured mount points is created in the new root
	for _, d := range c.Mkdirs {
		ok := d == "old_root" || d == "data" || d == "data/in" || d == "w" || d == "proc" || d == "hand"
		sym.Assert(ok, "an unexpected directory was created in the new root: "+d)
	}
	if srcIsFile {
		sym.Reach("file-bind")
		found := false
		for _, n := range c.Mknods {
			if n == "data/in" {
				found = true
			}
		}
		sym.Assert(found, "a file bind mount needs a file as mount point")
	}
	sym.Assert(c.Cwd == "/w", "the program starts in the work directory inside the new root")
}
