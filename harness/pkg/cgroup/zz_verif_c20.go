package cgroup

import (
	"github.com/criyle/go-sandbox/zzverif/sym"
)

const root = "/sys/fs/cgroup"

func baseFS() *cgfs {
	m := installFS()
	m.dirs["/sys"] = true
	m.dirs["/sys/fs"] = true
	m.mkCgroupDir(root, "cpu memory pids")
	m.mkCgroupDir(root+"/p", "cpu memory pids")
	return m
}

// VerifC20_V2Lifecycle: New / Random / Destroy on a v2 parent: a handle reports Existing()
// iff the directory was there before the call that produced it; Random (random source =
// nondeterministic choice, so collisions are reachable) never returns a group that already
// existed; Destroy removes the directory iff the handle created it.
func VerifC20_V2Lifecycle() {
	m := baseFS()
	ct := &Controllers{CPU: true, Memory: true, Pids: true}
	parent := &V2{path: root + "/p", control: ct, existing: true}
	if sym.Bool("a_preexists") {
		m.mkCgroupDir(root+"/p/a", "")
	}
	if sym.Bool("r1_preexists") {
		m.mkCgroupDir(root+"/p/r1x", "")
	}
	rnd := 0
	sym.Intercept("math/rand/v2.Int32", func() int32 {
		rnd++
		if rnd > 4 {
			return 9 // eventually a fresh name
		}
		return int32(1 + sym.Choose("rand", 2))
	})
	switch sym.Choose("op", 2) {
	case 0:
		existed := m.dirs[root+"/p/a"]
		cg, err := parent.New("a")
		sym.Assert(err == nil && cg != nil, "New must succeed")
		if cg == nil {
			return
		}
		sym.Reach("new")
		sym.Assert(cg.Existing() == existed, "Existing() must tell whether the directory was there before New")
		sym.Assert(m.dirs[root+"/p/a"], "the group must exist after New")
		lerr := cg.SetProcLimit(7)
		sym.Assert(lerr == nil && m.files[root+"/p/a/pids.max"] == "7", "a limit set through the new handle did not reach its own group")
		err = cg.Destroy()
		sym.Assert(err == nil, "Destroy must succeed")
		sym.Assert(m.dirs[root+"/p/a"] == existed, "Destroy must remove the group iff this handle created it")
	case 1:
		before := map[string]bool{}
		for d, ok := range m.dirs {
			before[d] = ok
		}
		cg, err := parent.Random("r*x")
		sym.Assert(err == nil && cg != nil, "Random must succeed")
		if cg == nil {
			return
		}
		sym.Reach("random")
		v2 := cg.(*V2)
		sym.Assert(!before[v2.path], "Random returned a group that already existed (name collision): not a distinct group")
		sym.Assert(!cg.Existing(), "a group created by Random must be owned by its handle")
		cg2, err := parent.Random("r*x")
		if err == nil && cg2 != nil {
			sym.Reach("random-twice")
			sym.Assert(cg2.(*V2).path != v2.path, "two Random calls returned the same group")
		}
	}
}

// VerifC20_V2ConcurrentNew: two threads create the same prefix through cgroup.New (v2) at
// the same time, all interleavings of their stat/mkdir/rmdir steps within the delay bound:
// at most one of two successful creators owns the directory, and a failing creator's cleanup
// never removes the directory that the other one holds.
func VerifC20_V2ConcurrentNew() {
	m := baseFS()
	DetectedCgroupType = TypeV2
	ct := &Controllers{CPU: true, Memory: true, Pids: true}
	var cgA, cgB Cgroup
	var errA, errB error
	go func() { cgA, errA = New("p/job", ct) }()
	go func() { cgB, errB = New("p/job", ct) }()
	sym.WaitOthers()
	owners := 0
	if errA == nil && cgA != nil && !cgA.Existing() {
		owners++
	}
	if errB == nil && cgB != nil && !cgB.Existing() {
		owners++
	}
	sym.Reach("both-done")
	sym.Assert(owners <= 1, "two concurrent creators both own (and will both remove) the same group")
	if (errA == nil && cgA != nil) || (errB == nil && cgB != nil) {
		sym.Assert(m.dirs[root+"/p/job"], "a successful creator holds a handle to a group that was removed by the other creator's cleanup")
	}
}

// VerifC20_V1ConcurrentNew: the same for the v1 hierarchy (one controller).
func VerifC20_V1ConcurrentNew() {
	m := installFS()
	m.dirs["/sys"], m.dirs["/sys/fs"], m.dirs[root], m.dirs[root+"/memory"] = true, true, true, true
	DetectedCgroupType = TypeV1
	ct := &Controllers{Memory: true}
	var cgA, cgB Cgroup
	var errA, errB error
	go func() { cgA, errA = New("job", ct) }()
	go func() { cgB, errB = New("job", ct) }()
	sym.WaitOthers()
	owners := 0
	if errA == nil && cgA != nil && !cgA.Existing() {
		owners++
	}
	if errB == nil && cgB != nil && !cgB.Existing() {
		owners++
	}
	sym.Reach("both-done")
	sym.Assert(owners <= 1, "two concurrent creators both own (and will both remove) the same v1 group")
}

// numeral returns a decimal numeral of 1..3 symbolic digits together with its value, or one
// of a few malformed variants (chosen by exploration).
func numeral() (text string, value uint64, valid bool) {
	switch sym.Choose("numeral", 6) {
	case 0, 1, 2:
		nd := 1 + sym.Choose("ndigits", 3)
		d := sym.Bytes("digit", nd)
		for _, c := range d {
			sym.Assume(c >= '0')
			sym.Assume(c <= '9')
			value = value*10 + uint64(c-'0')
		}
		return string(d), value, true
	case 3:
		return "12x", 0, false
	case 4:
		return "", 0, false
	}
	return "18446744073709551617", 0, false // does not fit 64 bits
}

// VerifC20_Readers: the statistics readers return nanoseconds / bytes / counts equal to the
// decimal value in the kernel's file, or an error - never a wrong number - for file contents
// with symbolic digits, malformed numerals, extra fields, and missing files.
func VerifC20_Readers() {
	m := baseFS()
	ct := &Controllers{CPU: true, Memory: true, Pids: true}
	g := &V2{path: root + "/p", control: ct, existing: true}
	num, want, valid := numeral()
	switch sym.Choose("reader", 5) {
	case 0: // cpu.stat with extra fields before and after
		m.files[root+"/p/cpu.stat"] = "nr_periods 0\nusage_usec " + num + "\nuser_usec 7\n"
		v, err := g.CPUUsage()
		if valid {
			sym.Reach("cpu-valid")
			sym.Assert(err == nil && v == want*1000, "CPU usage must be usage_usec * 1000 ns")
		} else {
			sym.Reach("cpu-malformed")
			sym.Assert(err != nil, "malformed cpu.stat must give an error, not a number")
		}
	case 1: // cpu.stat without the field
		m.files[root+"/p/cpu.stat"] = "user_usec " + num + "\n"
		_, err := g.CPUUsage()
		sym.Reach("cpu-missing-field")
		sym.Assert(err != nil, "cpu.stat without usage_usec must give an error")
	case 2: // memory.peak with trailing newline
		m.files[root+"/p/memory.peak"] = num + "\n"
		v, err := g.MemoryMaxUsage()
		if valid {
			sym.Reach("mem-valid")
			sym.Assert(err == nil && v == want, "memory peak must be the byte count in the file")
		} else {
			sym.Reach("mem-malformed")
			sym.Assert(err != nil, "malformed memory.peak must give an error")
		}
	case 3: // pids.peak
		m.files[root+"/p/pids.peak"] = num + "\n"
		v, err := g.ProcessPeak()
		if valid {
			sym.Reach("pids-valid")
			sym.Assert(err == nil && v == want, "pids.peak must be the count in the file")
		} else {
			sym.Assert(err != nil, "malformed pids.peak must give an error")
		}
	case 4: // missing file
		_, err := g.ProcessPeak()
		sym.Reach("missing-file")
		sym.Assert(err != nil, "a missing statistics file must give an error")
	}
}

// VerifC20_Writers: AddProc writes exactly the decimal pid to the group's own cgroup.procs;
// the limit setters write the decimal value to the right file of the group.  Values below
// 100 are fully symbolic; larger ones are representatives.
func VerifC20_Writers() {
	m := baseFS()
	ct := &Controllers{CPU: true, Memory: true, Pids: true}
	g := &V2{path: root + "/p", control: ct, existing: true}
	m.mkCgroupDir(root+"/other", "cpu memory pids")
	var val uint64
	if sym.Bool("small") {
		val = sym.U64("value")
		sym.Assume(val < 100)
	} else {
		val = []uint64{100, 4194304, 1<<32 + 5, 1<<63 + 9}[sym.Choose("big", 4)]
	}
	dec := func(v uint64) string {
		if v == 0 {
			return "0"
		}
		var b []byte
		for v > 0 {
			b = append([]byte{byte('0' + v%10)}, b...)
			v /= 10
		}
		return string(b)
	}
	// the reference numeral is computed on the concretised value
	switch sym.Choose("writer", 3) {
	case 0:
		pid := int(val & 0x3fffff)
		sym.Assume(pid >= 1)
		err := g.AddProc(pid)
		sym.Reach("addproc")
		sym.Assert(err == nil, "AddProc must succeed")
		w := m.writes[root+"/p/cgroup.procs"]
		sym.Assert(len(w) == 1, "AddProc must issue exactly one write per pid")
		if len(w) == 1 {
			sym.Assert(w[0] == dec(uint64(sym.ConcreteInt(pid))), "AddProc must write exactly the decimal pid to the group's cgroup.procs")
		}
		sym.Assert(len(m.writes[root+"/other/cgroup.procs"]) == 0 && len(m.writes[root+"/cgroup.procs"]) == 0, "AddProc touched another group")
	case 1:
		err := g.SetMemoryLimit(val)
		sym.Reach("memlimit")
		sym.Assert(err == nil && m.files[root+"/p/memory.max"] == dec(sym.Concrete(val)), "the memory limit must be written in decimal to memory.max of the group")
	case 2:
		err := g.SetProcLimit(val)
		sym.Reach("proclimit")
		sym.Assert(err == nil && m.files[root+"/p/pids.max"] == dec(sym.Concrete(val)), "the process limit must be written in decimal to pids.max of the group")
	}
}

// VerifC20_V1Lifecycle: V1.New under a parent with two controllers where each controller's
// directory for the new name may or may not pre-exist (symbolic): Destroy (and the cleanup
// of a failing New) removes a controller directory iff this very handle created it, and a
// handle that reports Existing()==false owns every directory it will remove.
func VerifC20_V1Lifecycle() {
	m := installFS()
	for _, d := range []string{"/sys", "/sys/fs", root, root + "/cpu", root + "/memory", root + "/cpu/p", root + "/memory/p"} {
		m.dirs[d] = true
	}
	parent := &V1{prefix: "p", cpu: newV1Controller(root + "/cpu/p"), memory: newV1Controller(root + "/memory/p")}
	parent.all = []*v1controller{parent.cpu, parent.memory}
	cpuPre, memPre := sym.Bool("cpu_dir_preexists"), sym.Bool("memory_dir_preexists")
	if cpuPre {
		m.dirs[root+"/cpu/p/job"] = true
	}
	if memPre {
		m.dirs[root+"/memory/p/job"] = true
	}
	budget := sym.Choose("mkdir_may_fail", 2) // one directory creation may be refused (EACCES)
	m.faults = budget
	cg, err := parent.New("job")
	faultUsed := m.faults < budget
	m.faults = 0
	if err != nil {
		// a directory creation was refused: New fails and must roll back only what it created
		sym.Assert(faultUsed, "New failed although no step failed")
		sym.Reach("new-failed")
		sym.Assert(cg == nil, "a failed New must not return a handle")
		if cpuPre {
			sym.Assert(m.dirs[root+"/cpu/p/job"], "the rollback of a failed New removed a cpu group that existed before")
		} else {
			sym.Assert(!m.dirs[root+"/cpu/p/job"], "a failed New left the cpu group it had created")
		}
		if memPre {
			sym.Assert(m.dirs[root+"/memory/p/job"], "the rollback of a failed New removed a memory group that existed before")
		} else {
			sym.Assert(!m.dirs[root+"/memory/p/job"], "a failed New left the memory group it had created")
		}
		return
	}
	sym.Assert(err == nil && cg != nil, "New must succeed")
	if cg == nil {
		return
	}
	sym.Reach("created")
	if cpuPre && memPre {
		sym.Assert(cg.Existing(), "a fully pre-existing group must be reported as existing")
	}
	if !cpuPre && !memPre {
		sym.Assert(!cg.Existing(), "a freshly created group must be owned by its handle")
	}
	// the handle controls its own group whether or not the directories pre-existed
	lerr := cg.SetMemoryLimit(4194304)
	sym.Assert(lerr == nil && m.files[root+"/memory/p/job/memory.limit_in_bytes"] == "4194304", "a limit set through the new handle did not reach its own group")
	cg.Destroy()
	if cpuPre {
		sym.Assert(m.dirs[root+"/cpu/p/job"], "Destroy removed a cpu directory that existed before this handle")
	}
	if memPre {
		sym.Assert(m.dirs[root+"/memory/p/job"], "Destroy removed a memory directory that existed before this handle")
	}
	if !cpuPre && !memPre {
		sym.Assert(!m.dirs[root+"/cpu/p/job"] && !m.dirs[root+"/memory/p/job"], "Destroy must remove the group that this handle created")
	}
}

// VerifC20_AddProcMany: every pid is moved by its own write(2) of exactly its decimal
// numeral (the kernel accepts one pid per write to cgroup.procs).
func VerifC20_AddProcMany() {
	m := baseFS()
	ct := &Controllers{CPU: true, Memory: true, Pids: true}
	g := &V2{path: root + "/p", control: ct, existing: true}
	a, b := sym.Int("pid"), 12345
	sym.Assume(a >= 1 && a < 100)
	err := g.AddProc(a, b)
	sym.Assert(err == nil, "AddProc must succeed")
	w := m.writes[root+"/p/cgroup.procs"]
	sym.Reach("two-pids")
	sym.Assert(len(w) == 2, "each pid needs its own write to cgroup.procs")
	if len(w) == 2 {
		ca, cb := sym.ConcreteInt(a), sym.ConcreteInt(b)
		dec := func(v int) string {
			if v >= 100 {
				return "12345"
			}
			if v >= 10 {
				return string([]byte{byte('0' + v/10), byte('0' + v%10)})
			}
			return string([]byte{byte('0' + v)})
		}
		sym.Assert(w[0] == dec(ca) && w[1] == dec(cb), "each write must be exactly the decimal pid")
	}
}

// VerifC20_V2ConcurrentSubNew / VerifC20_V1ConcurrentSubNew: two threads create the same
// sub-group through one parent handle ((*V2).New / (*V1).New, the path Random takes) at the
// same time, all interleavings of their stat/mkdir steps within the delay bound: at most one
// of them owns (and will remove) the group.
func VerifC20_V2ConcurrentSubNew() {
	m := baseFS()
	ct := &Controllers{CPU: true, Memory: true, Pids: true}
	parent := &V2{path: root + "/p", control: ct, existing: true}
	var cgA, cgB Cgroup
	var errA, errB error
	go func() { cgA, errA = parent.New("job") }()
	go func() { cgB, errB = parent.New("job") }()
	sym.WaitOthers()
	owners := 0
	if errA == nil && cgA != nil && !cgA.Existing() {
		owners++
	}
	if errB == nil && cgB != nil && !cgB.Existing() {
		owners++
	}
	sym.Reach("both-done")
	sym.Assert(errA == nil && errB == nil, "creating a sub-group that another thread creates at the same time must not fail")
	sym.Assert(owners <= 1, "two concurrent creators both own (and will both remove) the same sub-group")
	sym.Assert(m.dirs[root+"/p/job"], "the sub-group must exist")
}

func VerifC20_V1ConcurrentSubNew() {
	m := installFS()
	for _, d := range []string{"/sys", "/sys/fs", root, root + "/memory", root + "/memory/p"} {
		m.dirs[d] = true
	}
	parent := &V1{prefix: "p", memory: newV1Controller(root + "/memory/p")}
	parent.all = []*v1controller{parent.memory}
	var cgA, cgB Cgroup
	var errA, errB error
	go func() { cgA, errA = parent.New("job") }()
	go func() { cgB, errB = parent.New("job") }()
	sym.WaitOthers()
	owners := 0
	if errA == nil && cgA != nil && !cgA.Existing() {
		owners++
	}
	if errB == nil && cgB != nil && !cgB.Existing() {
		owners++
	}
	sym.Reach("both-done")
	sym.Assert(owners <= 1, "two concurrent creators both own (and will both remove) the same v1 sub-group")
}
