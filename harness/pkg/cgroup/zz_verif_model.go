package cgroup

import (
	"io/fs"
	"os"
	"strings"
	"syscall"
	"time"

	"github.com/criyle/go-sandbox/zzverif/sym"
)

// K-FS model of a cgroup hierarchy: directories and control files, with the atomicity the
// kernel gives (mkdir is create-or-EEXIST; stat/mkdir/rmdir are separate steps that other
// threads may interleave with: every call is a scheduling point).
type cgfs struct {
	dirs    map[string]bool
	files   map[string]string
	writes  map[string][]string // every write(2) per file, in order
	mkdirs  map[string]int      // who created it (thread id + 1)
	rmdirs  []string
	handles map[*os.File]string
	faults  int
}

var FS *cgfs

type finfo struct {
	dir bool
}

func (f finfo) Name() string       { return "x" }
func (f finfo) Size() int64        { return 0 }
func (f finfo) Mode() os.FileMode  { return 0755 }
func (f finfo) ModTime() time.Time { return time.Time{} }
func (f finfo) IsDir() bool        { return f.dir }
func (f finfo) Sys() any           { return nil }

func parentOf(p string) string {
	i := strings.LastIndexByte(p, '/')
	if i <= 0 {
		return "/"
	}
	return p[:i]
}

func (m *cgfs) fault(what string) bool {
	if m.faults > 0 && sym.Bool("fault_"+what) {
		m.faults--
		return true
	}
	return false
}

func installFS() *cgfs {
	m := &cgfs{dirs: map[string]bool{"/": true}, files: map[string]string{}, writes: map[string][]string{}, mkdirs: map[string]int{}, handles: map[*os.File]string{}}
	FS = m
	sym.Intercept("os.Stat", func(p string) (os.FileInfo, error) {
		sym.Yield()
		if m.dirs[p] {
			return finfo{true}, nil
		}
		if _, ok := m.files[p]; ok {
			return finfo{false}, nil
		}
		return nil, &fs.PathError{Op: "stat", Path: p, Err: syscall.ENOENT}
	})
	mkdir := func(p string) error {
		if m.fault("mkdir") {
			return &fs.PathError{Op: "mkdir", Path: p, Err: syscall.EACCES}
		}
		if m.dirs[p] {
			return &fs.PathError{Op: "mkdir", Path: p, Err: syscall.EEXIST}
		}
		if !m.dirs[parentOf(p)] {
			return &fs.PathError{Op: "mkdir", Path: p, Err: syscall.ENOENT}
		}
		m.dirs[p] = true
		m.mkdirs[p] = sym.ThreadID() + 1
		// the kernel populates a new cgroup directory with its control files
		m.files[p+"/cgroup.procs"] = ""
		m.files[p+"/cgroup.controllers"] = m.files[parentOf(p)+"/cgroup.subtree_control"]
		m.files[p+"/cgroup.subtree_control"] = ""
		return nil
	}
	sym.Intercept("os.Mkdir", func(p string, perm os.FileMode) error {
		sym.Yield()
		return mkdir(p)
	})
	sym.Intercept("os.MkdirAll", func(p string, perm os.FileMode) error {
		sym.Yield()
		// create missing ancestors, then the directory; existing directory is success
		var parts []string
		for q := p; q != "/" && !m.dirs[q]; q = parentOf(q) {
			parts = append(parts, q)
		}
		for i := len(parts) - 1; i >= 0; i-- {
			if err := mkdir(parts[i]); err != nil && !m.dirs[parts[i]] {
				return err
			}
		}
		return nil
	})
	sym.Intercept("syscall.Rmdir", func(p string) error {
		sym.Yield()
		if !m.dirs[p] {
			return syscall.ENOENT
		}
		for d := range m.dirs {
			if d != p && strings.HasPrefix(d, p+"/") && m.dirs[d] {
				return syscall.EBUSY
			}
		}
		m.dirs[p] = false
		m.rmdirs = append(m.rmdirs, p)
		return nil
	})
	sym.Intercept("os.ReadFile", func(p string) ([]byte, error) {
		sym.Yield()
		c, ok := m.files[p]
		if !ok || !m.dirs[parentOf(p)] {
			return nil, &fs.PathError{Op: "open", Path: p, Err: syscall.ENOENT}
		}
		return []byte(c), nil
	})
	sym.Intercept("os.WriteFile", func(p string, data []byte, perm os.FileMode) error {
		sym.Yield()
		if !m.dirs[parentOf(p)] {
			return &fs.PathError{Op: "open", Path: p, Err: syscall.ENOENT}
		}
		m.files[p] = string(data)
		m.writes[p] = append(m.writes[p], string(data))
		return nil
	})
	sym.Intercept("os.OpenFile", func(p string, flag int, perm os.FileMode) (*os.File, error) {
		sym.Yield()
		if _, ok := m.files[p]; !ok || !m.dirs[parentOf(p)] {
			return nil, &fs.PathError{Op: "open", Path: p, Err: syscall.ENOENT}
		}
		f := new(os.File)
		m.handles[f] = p
		return f, nil
	})
	sym.Intercept("(*os.File).WriteString", func(f *os.File, s string) (int, error) {
		p := m.handles[f]
		m.writes[p] = append(m.writes[p], s)
		return len(s), nil
	})
	sym.Intercept("(*os.File).Write", func(f *os.File, b []byte) (int, error) {
		p := m.handles[f]
		m.writes[p] = append(m.writes[p], string(b))
		return len(b), nil
	})
	sym.Intercept("(*os.File).Close", func(f *os.File) error { delete(m.handles, f); return nil })
	return m
}

// mkCgroupDir creates a pre-existing group directory with the given controllers enabled.
func (m *cgfs) mkCgroupDir(p, controllers string) {
	m.dirs[p] = true
	m.files[p+"/cgroup.procs"] = ""
	m.files[p+"/cgroup.controllers"] = controllers
	m.files[p+"/cgroup.subtree_control"] = controllers
}
