package rlimit

import (
	"fmt"

	"github.com/criyle/go-sandbox/zzverif/sym"
)

// SelfTestC08: PrepareRLimit and the String methods on concrete records.
func SelfTestC08() {
	r := RLimits{CPU: 1, CPUHard: 0, Data: 1 << 33, FileSize: 7, Stack: 8 << 20, AddressSpace: 0, OpenFile: 256, DisableCore: true}
	out := ""
	for _, l := range r.PrepareRLimit() {
		out += fmt.Sprintf("%d:%d:%d;", l.Res, l.Rlim.Cur, l.Rlim.Max)
	}
	sym.Output("prepare", out)
	sym.Output("string", r.String())
}
