package rlimit

import (
	"syscall"

	"github.com/criyle/go-sandbox/zzverif/sym"
)

// VerifC08_PrepareRLimit: for every limit record (all seven fields full-width symbolic) the
// prepared list holds exactly one (soft, hard) pair per configured resource with the
// configured values and nothing for resources that were not configured.
func VerifC08_PrepareRLimit() {
	r := RLimits{
		CPU: sym.U64("cpu"), CPUHard: sym.U64("cpuhard"), Data: sym.U64("data"), FileSize: sym.U64("fsize"),
		Stack: sym.U64("stack"), AddressSpace: sym.U64("as"), OpenFile: sym.U64("nofile"), DisableCore: sym.Bool("nocore"),
	}
	got := r.PrepareRLimit()
	type want struct {
		on       bool
		cur, max uint64
	}
	hard := r.CPUHard
	if hard < r.CPU {
		hard = r.CPU
	}
	spec := map[int]want{
		syscall.RLIMIT_CPU:    {r.CPU > 0, r.CPU, hard},
		syscall.RLIMIT_DATA:   {r.Data > 0, r.Data, r.Data},
		syscall.RLIMIT_FSIZE:  {r.FileSize > 0, r.FileSize, r.FileSize},
		syscall.RLIMIT_STACK:  {r.Stack > 0, r.Stack, r.Stack},
		syscall.RLIMIT_AS:     {r.AddressSpace > 0, r.AddressSpace, r.AddressSpace},
		syscall.RLIMIT_NOFILE: {r.OpenFile > 0, r.OpenFile, r.OpenFile},
		syscall.RLIMIT_CORE:   {r.DisableCore, 0, 0},
	}
	seen := map[int]int{}
	for _, e := range got {
		w, known := spec[e.Res]
		sym.Assert(known, "prepared entry for an unknown resource")
		sym.Assert(w.on, "prepared entry for a resource that was not configured")
		sym.Assert(e.Rlim.Cur == w.cur, "soft limit differs from the configured value")
		sym.Assert(e.Rlim.Max == w.max, "hard limit differs from the configured value")
		sym.Assert(e.Rlim.Cur <= e.Rlim.Max, "soft limit above hard limit (kernel would reject it)")
		seen[e.Res]++
	}
	for res, w := range spec {
		if w.on {
			sym.Reach("configured")
			sym.Assert(seen[res] == 1, "configured resource must appear exactly once")
		} else {
			sym.Reach("unconfigured")
			sym.Assert(seen[res] == 0, "unconfigured resource must not appear")
		}
	}
}
