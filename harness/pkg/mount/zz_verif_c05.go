package mount

import (
	"syscall"

	"github.com/criyle/go-sandbox/zzverif/sym"
)

// VerifC05_BuilderFlags: the flag sets the builder produces equal the documented ones for
// every readonly / canWrite argument: bind = BIND|NOSUID|PRIVATE|REC (+RDONLY), tmpfs =
// NOSUID|NOATIME|NODEV, proc = NOSUID|NODEV|NOEXEC (+RDONLY unless writable); pathPrefix
// lists every ancestor of a nested target so that the launcher can create them.
func VerifC05_BuilderFlags() {
	ro := sym.Bool("readonly")
	rw := sym.Bool("proc_writable")
	b := NewBuilder().WithBind("/src", "a/b/c", ro).WithTmpfs("w", "").WithProcRW(rw)
	m := b.Mounts
	const bindSet = syscall.MS_BIND | syscall.MS_NOSUID | syscall.MS_PRIVATE | syscall.MS_REC
	wantBind := uintptr(bindSet)
	if ro {
		wantBind |= syscall.MS_RDONLY
	}
	sym.Assert(m[0].Flags == wantBind && m[0].IsBindMount() && m[0].IsReadOnly() == ro, "bind flag set")
	sym.Assert(m[1].Flags == syscall.MS_NOSUID|syscall.MS_NOATIME|syscall.MS_NODEV && m[1].IsTmpFs() && !m[1].IsReadOnly(), "tmpfs flag set")
	wantProc := uintptr(syscall.MS_NOSUID | syscall.MS_NODEV | syscall.MS_NOEXEC)
	if !rw {
		wantProc |= syscall.MS_RDONLY
	}
	sym.Assert(m[2].Flags == wantProc && m[2].IsReadOnly() == !rw, "proc flag set")
	p := pathPrefix("a/b/c")
	sym.Assert(len(p) == 3 && p[0] == "a" && p[1] == "a/b" && p[2] == "a/b/c", "nested targets need every ancestor created")
	sym.Reach("done")
}
