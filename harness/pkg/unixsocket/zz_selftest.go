package unixsocket

import (
	"sync"
	"syscall"

	"github.com/criyle/go-sandbox/zzverif/sym"
)

// SelfTestC19: the control-message codecs of package syscall (struct views over []byte) and
// the repository's parser, interpreter vs native.
func SelfTestC19() {
	r := syscall.UnixRights(5, 7, 9)
	sym.Output("rights.bytes", r)
	c := syscall.UnixCredentials(&syscall.Ucred{Pid: 77, Uid: 1000, Gid: 100})
	sym.Output("cred.bytes", c)
	oob := append(append([]byte{}, c...), r...)
	msgs, err := syscall.ParseSocketControlMessage(oob)
	sym.Output("parse.err", err)
	sym.Output("parse.n", len(msgs))
	for i, m := range msgs {
		sym.Output("msg."+string(rune('0'+i))+".hdr", []int{int(m.Header.Len), int(m.Header.Level), int(m.Header.Type), len(m.Data)})
	}
	msg, err := parseMsg(msgs)
	sym.Output("parseMsg.err", err)
	sym.Output("parseMsg.fds", msg.Fds)
	if msg.Cred != nil {
		sym.Output("parseMsg.cred", *msg.Cred)
	}
	// truncated buffer
	_, err = syscall.ParseSocketControlMessage(oob[:len(oob)-3])
	sym.Output("parse.trunc.einval", err == syscall.EINVAL)
	_, err = syscall.ParseSocketControlMessage(oob[:20])
	sym.Output("parse.trunc20.einval", err == syscall.EINVAL)
	// sync.Map (engine model vs the real one)
	var m sync.Map
	m.Store("a", 1)
	m.Store("b", 2)
	m.Store("a", 3)
	v, ok := m.Load("a")
	sym.Output("syncmap.load", v.(int))
	sym.Output("syncmap.load.ok", ok)
	v, ok = m.Load("zz")
	sym.Output("syncmap.miss.nil", v == nil)
	sym.Output("syncmap.miss.ok", ok)
	v, loaded := m.LoadOrStore("c", 9)
	sym.Output("syncmap.los", v.(int))
	sym.Output("syncmap.los.loaded", loaded)
	v, loaded = m.LoadOrStore("c", 10)
	sym.Output("syncmap.los2", v.(int))
	sym.Output("syncmap.los2.loaded", loaded)
	m.Delete("b")
	n := 0
	m.Range(func(k, v any) bool { n += v.(int); return true })
	sym.Output("syncmap.sum", n)
}
