package unixsocket

import (
	"net"
	"os"
	"syscall"
	"unsafe"

	"github.com/criyle/go-sandbox/zzverif/sym"
)

// ---- K-SOCK (SEQPACKET) contract model with ancillary data --------------------------------
// Control messages travel in the real cmsg(3) byte layout (struct cmsghdr {u64 len; i32 level;
// i32 type} + data, each message padded to 8 bytes): the codecs of package syscall
// (UnixRights, UnixCredentials, ParseSocketControlMessage, ParseUnixRights,
// ParseUnixCredentials) and any hand-written walk over the buffer run on the bytes the kernel
// would produce.

const (
	kindRights = 1
	kindCred   = 2
	kindOther  = 3 // some other level/type
)

func cmsgSpace(n int) int { return 16 + (n+7)&^7 }

type ctl struct {
	kind  int
	files []int // identities of the open files being passed
	cred  syscall.Ucred
	level int32
	typ   int32
}

type pkt struct {
	data int // payload length
	ctls []ctl
}

type fdtab struct {
	open   map[int]int // fd -> file identity
	closes map[int]int // fd -> number of close calls
	next   int
}

type sockModel struct {
	inflight  *pkt
	recv      fdtab
	installed []int // descriptors the kernel installed for the last received packet
	sendErr   bool
	recvErr   bool
	passCred  bool // SO_PASSCRED on the receiving end: credentials are delivered (the sender's own if none attached)
}

var M *sockModel

func le32(b []byte) uint32 {
	return uint32(b[0]) | uint32(b[1])<<8 | uint32(b[2])<<16 | uint32(b[3])<<24
}

func le64(b []byte) uint64 { return uint64(le32(b)) | uint64(le32(b[4:]))<<32 }

func put32(b []byte, v uint32) {
	b[0], b[1], b[2], b[3] = byte(v), byte(v>>8), byte(v>>16), byte(v>>24)
}

// encCmsg lays out one control message as the kernel's put_cmsg does.
func encCmsg(level, typ int32, data []byte) []byte {
	b := make([]byte, cmsgSpace(len(data)))
	put32(b[0:], uint32(16+len(data)))
	put32(b[8:], uint32(level))
	put32(b[12:], uint32(typ))
	copy(b[16:], data)
	return b
}

// writeMsg: the sender's side of sendmsg(2): the kernel walks the control buffer (CMSG_NXTHDR);
// at most 253 rights per message (SCM_MAX_FD), malformed headers => EINVAL.
func (m *sockModel) writeMsg(c *net.UnixConn, b, oob []byte, addr *net.UnixAddr) (int, int, error) {
	if m.sendErr {
		return 0, 0, syscall.EPIPE
	}
	p := &pkt{data: len(b)}
	for off := 0; off+16 <= len(oob); {
		l := int(le64(oob[off:]))
		level, typ := int32(le32(oob[off+8:])), int32(le32(oob[off+12:]))
		if l < 16 || off+l > len(oob) {
			return 0, 0, syscall.EINVAL
		}
		data := oob[off+16 : off+l]
		switch {
		case level == syscall.SOL_SOCKET && typ == syscall.SCM_RIGHTS:
			n := len(data) / 4
			if n > 253 {
				return 0, 0, syscall.EINVAL
			}
			ct := ctl{kind: kindRights, level: level, typ: typ}
			for i := 0; i < n; i++ {
				ct.files = append(ct.files, 1000+int(int32(le32(data[4*i:])))) // identity of the sender's open file
			}
			p.ctls = append(p.ctls, ct)
		case level == syscall.SOL_SOCKET && typ == syscall.SCM_CREDENTIALS:
			if len(data) != 12 {
				return 0, 0, syscall.EINVAL
			}
			p.ctls = append(p.ctls, ctl{kind: kindCred, level: level, typ: typ,
				cred: syscall.Ucred{Pid: int32(le32(data)), Uid: le32(data[4:]), Gid: le32(data[8:])}})
		default:
			sym.Assert(false, "sender produced an unknown control message")
			return 0, 0, syscall.EINVAL
		}
		off += (l + 7) &^ 7
	}
	// delivery (unix_*_recvmsg -> scm_recv): credentials first, and only to a receiver with
	// SO_PASSCRED (the sender's own when it attached none); then the rights
	var ordered []ctl
	haveCred := false
	for _, ct := range p.ctls {
		if ct.kind == kindCred && m.passCred {
			ordered = append(ordered, ct)
			haveCred = true
		}
	}
	if m.passCred && !haveCred {
		ordered = append(ordered, ctl{kind: kindCred, level: syscall.SOL_SOCKET, typ: syscall.SCM_CREDENTIALS, cred: kernelCred})
	}
	for _, ct := range p.ctls {
		if ct.kind != kindCred {
			ordered = append(ordered, ct)
		}
	}
	p.ctls = ordered
	m.inflight = p
	return len(b), len(oob), nil
}

// what the kernel reports for a sender that attached no credentials
var kernelCred = syscall.Ucred{Pid: 4242, Uid: 0, Gid: 0}

// readMsg: recvmsg(2) with MSG_CMSG_CLOEXEC: payload truncated to len(b) (MSG_TRUNC); each
// control message is put while room is left: a message that does not fit is copied truncated
// (cmsg_len = the room left) and MSG_CTRUNC raised; for SCM_RIGHTS as many descriptors as fit
// are INSTALLED in the receiver (also when a flag is raised), the rest are dropped by the kernel.
func (m *sockModel) readMsg(c *net.UnixConn, b, oob []byte) (n, oobn, flags int, addr *net.UnixAddr, err error) {
	if m.recvErr || m.inflight == nil {
		return 0, 0, 0, nil, syscall.ECONNRESET
	}
	p := m.inflight
	m.inflight = nil
	n = p.data
	if n > len(b) {
		n = len(b)
		flags |= syscall.MSG_TRUNC
	}
	m.installed = nil
	for _, ct := range p.ctls {
		room := len(oob) - oobn
		var enc []byte
		switch ct.kind {
		case kindRights:
			fit := len(ct.files)
			if room < 16 {
				fit = 0
			} else if (room-16)/4 < fit {
				fit = (room - 16) / 4
			}
			if fit < len(ct.files) {
				flags |= syscall.MSG_CTRUNC
			}
			if fit == 0 {
				continue
			}
			data := make([]byte, 4*fit)
			for i := 0; i < fit; i++ {
				m.recv.next++
				fd := m.recv.next
				m.recv.open[fd] = ct.files[i]
				m.installed = append(m.installed, fd)
				put32(data[4*i:], uint32(fd))
			}
			enc = encCmsg(syscall.SOL_SOCKET, syscall.SCM_RIGHTS, data)
		case kindCred:
			data := make([]byte, 12)
			put32(data[0:], uint32(ct.cred.Pid))
			put32(data[4:], ct.cred.Uid)
			put32(data[8:], ct.cred.Gid)
			enc = encCmsg(syscall.SOL_SOCKET, syscall.SCM_CREDENTIALS, data)
		case kindOther:
			enc = encCmsg(41, 7, make([]byte, 4))
		}
		if room < 16 {
			flags |= syscall.MSG_CTRUNC
			continue
		}
		if len(enc) > room {
			// put_cmsg: truncated copy, cmsg_len = what is left (rights were already cut to fit above)
			if int(le64(enc)) > room {
				flags |= syscall.MSG_CTRUNC
				put32(enc[0:], uint32(room))
			}
			enc = enc[:room]
		}
		copy(oob[oobn:], enc)
		oobn += len(enc)
	}
	return n, oobn, flags, nil, nil
}

func installSockModel() *sockModel {
	m := &sockModel{recv: fdtab{open: map[int]int{}, closes: map[int]int{}, next: 50}}
	M = m
	sym.Intercept("(*net.UnixConn).WriteMsgUnix", m.writeMsg)
	sym.Intercept("(*net.UnixConn).ReadMsgUnix", m.readMsg)
	sym.Intercept("syscall.Close", func(fd int) error {
		m.recv.closes[fd]++
		if _, ok := m.recv.open[fd]; !ok {
			return syscall.EBADF
		}
		delete(m.recv.open, fd)
		return nil
	})
	return m
}

// VerifC19_RoundTrip: one message from SendMsg to RecvMsg: payload length, receive buffer
// length, number of rights and presence of credentials are symbolic (small ranges).  A message
// is delivered whole with exactly the sender's descriptors (same open files, same order) and
// credentials, or rejected with an error; on EVERY error return of RecvMsg the descriptors the
// kernel installed for that packet are closed exactly once.
func VerifC19_RoundTrip() {
	m := installSockModel()
	snd := &Socket{UnixConn: &net.UnixConn{}, sendBuff: make([]byte, oobSize), recvBuff: make([]byte, oobSize)}
	rcvOob := oobSize
	if sym.Bool("small_oob") {
		rcvOob = 24 + 8*sym.Choose("oob_room", 3) // a receiver with a tiny control buffer
	}
	rcv := &Socket{UnixConn: &net.UnixConn{}, sendBuff: make([]byte, oobSize), recvBuff: make([]byte, rcvOob)}
	plen := sym.Choose("payload", 6)
	blen := sym.Choose("bufsize", 6)
	nfds := sym.Choose("nfds", 4)
	var fds []int
	for i := 0; i < nfds; i++ {
		fds = append(fds, 10+i)
	}
	msg := Msg{Fds: fds}
	if sym.Bool("with_cred") {
		msg.Cred = &syscall.Ucred{Pid: 77, Uid: 3, Gid: 4}
	}
	m.sendErr = sym.Bool("send_fails")
	m.passCred = sym.Bool("receiver_passcred")
	err := snd.SendMsg(make([]byte, plen), msg)
	if m.sendErr {
		sym.Assert(err != nil, "a failing send must be reported")
		return
	}
	sym.Assert(err == nil, "a message that fits must be sent")
	m.recvErr = sym.Bool("recv_fails")
	n, got, err := rcv.RecvMsg(make([]byte, blen))
	if err != nil {
		sym.Reach("rejected")
		for _, fd := range m.installed {
			sym.Assert(m.recv.closes[fd] == 1, "a descriptor that arrived with a rejected message was leaked (or closed twice)")
		}
		sym.Assert(len(got.Fds) == 0, "a rejected message must not hand out descriptors")
		return
	}
	sym.Reach("delivered")
	sym.Assert(plen <= blen, "a truncated payload was delivered as success")
	sym.Assert(n == plen, "the payload length must be the sender's")
	sym.Assert(len(got.Fds) == nfds, "exactly the sender's descriptors must arrive")
	for i := range got.Fds {
		if i < nfds {
			sym.Assert(m.recv.open[got.Fds[i]] == 1000+fds[i], "descriptor i must refer to the sender's i-th open file")
		}
	}
	switch {
	case !m.passCred:
		sym.Assert(got.Cred == nil, "credentials reported although the kernel delivered none")
	case msg.Cred != nil:
		sym.Assert(got.Cred != nil && *got.Cred == *msg.Cred, "credentials must arrive intact")
	default:
		sym.Assert(got.Cred != nil && *got.Cred == kernelCred, "the kernel-supplied credentials must be reported")
	}
	for _, fd := range m.installed {
		sym.Assert(m.recv.closes[fd] == 0, "a delivered descriptor was closed")
	}
}

// VerifC19_HostilePeer: what arrives is arbitrary (up to two control messages of symbolic kind:
// rights, credentials, foreign level; at most one SCM_RIGHTS message, since Linux merges all
// rights of one sendmsg into a single message): every descriptor the kernel installed is
// either handed to the caller or closed exactly once.
func VerifC19_HostilePeer() {
	m := installSockModel()
	rcv := &Socket{UnixConn: &net.UnixConn{}, sendBuff: make([]byte, oobSize), recvBuff: make([]byte, oobSize)}
	p := &pkt{data: 1}
	nc := sym.Choose("nctl", 3)
	haveRights := false
	for i := 0; i < nc; i++ {
		kind := sym.Choose("ctl_kind", 3)
		if kind == 0 && haveRights {
			kind = 2
		}
		switch kind {
		case 0:
			haveRights = true
			k := 1 + sym.Choose("nrights", 2)
			ct := ctl{kind: kindRights}
			for j := 0; j < k; j++ {
				ct.files = append(ct.files, 2000+10*i+j)
			}
			p.ctls = append(p.ctls, ct)
		case 1:
			p.ctls = append(p.ctls, ctl{kind: kindCred, cred: syscall.Ucred{Pid: 5, Uid: 6, Gid: 7}})
		case 2:
			p.ctls = append(p.ctls, ctl{kind: kindOther})
		}
	}
	m.inflight = p
	_, got, err := rcv.RecvMsg(make([]byte, 4))
	handed := map[int]bool{}
	if err == nil {
		sym.Reach("delivered")
		for _, fd := range got.Fds {
			handed[fd] = true
		}
	} else {
		sym.Reach("rejected")
	}
	for _, fd := range m.installed {
		if handed[fd] {
			sym.Assert(m.recv.closes[fd] == 0, "a descriptor handed to the caller was closed")
		} else {
			sym.Extra("class", "unhanded-descriptor")
			sym.Assert(m.recv.closes[fd] == 1, "a descriptor installed by the kernel was neither handed to the caller nor closed")
		}
	}
}

// VerifC19_Constructors: NewSocketPair / NewSocket with every step failing (symbolic):
// socketpair, wrapping the descriptor (os.NewFile), duplicating it into a connection
// (net.FileConn, e.g. EMFILE).  Whatever fails, every descriptor created is closed exactly
// once - none leaks, and none is closed twice (a second close can hit a descriptor that
// another goroutine has just been given under the same number).
func VerifC19_Constructors() {
	open := map[int]bool{}
	closes := map[int]int{}
	next := 20
	files := map[*os.File]int{}
	conns := map[*net.UnixConn]int{}
	closeFd := func(fd int) error {
		closes[fd]++
		if !open[fd] {
			return syscall.EBADF
		}
		delete(open, fd)
		return nil
	}
	sym.Intercept("syscall.Socketpair", func(domain, typ, proto int) ([2]int, error) {
		if sym.Bool("socketpair_fails") {
			return [2]int{-1, -1}, syscall.EMFILE
		}
		open[10], open[11] = true, true
		return [2]int{10, 11}, nil
	})
	sym.Intercept("syscall.SetNonblock", func(fd int, nb bool) error { return nil })
	sym.Intercept("syscall.CloseOnExec", func(fd int) {})
	sym.Intercept("syscall.Close", closeFd)
	sym.Intercept("os.NewFile", func(fd uintptr, name string) *os.File {
		f := new(os.File)
		files[f] = int(fd)
		return f
	})
	sym.Intercept("(*os.File).Close", func(f *os.File) error { return closeFd(files[f]) })
	sym.Intercept("net.FileConn", func(f *os.File) (net.Conn, error) {
		if sym.Bool("fileconn_fails") {
			return nil, syscall.EMFILE // the duplicate could not be created
		}
		next++
		open[next] = true
		c := &net.UnixConn{}
		conns[c] = next
		return c, nil
	})
	sym.Intercept("(*net.conn).Close", func(c unsafe.Pointer) error {
		for uc, fd := range conns {
			if sym.InnerPtr(uc) == c {
				return closeFd(fd)
			}
		}
		sym.Assert(false, "model: Close of an unknown connection")
		return nil
	})
	a, b, err := NewSocketPair()
	for fd, n := range closes {
		_ = fd
		sym.Assert(n <= 1, "a descriptor was closed twice on a constructor's error path")
	}
	if err != nil {
		sym.Reach("failed")
		sym.Assert(a == nil && b == nil, "a failed constructor must not return sockets")
		sym.Assert(len(open) == 0, "a descriptor leaked on a constructor's error path")
		return
	}
	sym.Reach("built")
	sym.Assert(a != nil && b != nil && len(open) == 2 && !open[10] && !open[11], "the pair owns exactly the two duplicated descriptors")
}
