package unixsocket

import (
	"net"
	"syscall"

	"github.com/criyle/go-sandbox/zzverif/sym"
)

// ---- K-SOCK (SEQPACKET) contract model with ancillary data --------------------------------
// The cmsg codecs of package syscall reinterpret []byte through unsafe; they are replaced by
// a codec with the real sizes (CmsgSpace) and an own layout: byte 0 = kind, byte 1 = count.

const (
	kindRights = 1
	kindCred   = 2
	kindOther  = 3 // some other level/type
)

func cmsgSpace(n int) int { return 16 + (n+7)&^7 }

type ctl struct {
	kind  int
	files []int // identities of the open files being passed
	cred  syscall.Ucred
	level int32
	typ   int32
}

type pkt struct {
	data int // payload length
	ctls []ctl
}

type fdtab struct {
	open   map[int]int // fd -> file identity
	closes map[int]int // fd -> number of close calls
	next   int
}

type sockModel struct {
	inflight  *pkt
	recv      fdtab
	installed []int // descriptors the kernel installed for the last received packet
	sendErr   bool
	recvErr   bool
}

var M *sockModel

func encRights(fds ...int) []byte {
	b := make([]byte, cmsgSpace(4*len(fds)))
	b[0] = kindRights
	b[1] = byte(len(fds))
	for i, fd := range fds {
		if 2+i < len(b) {
			b[2+i] = byte(fd)
		}
	}
	return b
}

func encCred(c *syscall.Ucred) []byte {
	b := make([]byte, cmsgSpace(12))
	b[0] = kindCred
	b[1] = byte(c.Pid)
	b[2] = byte(c.Uid)
	b[3] = byte(c.Gid)
	return b
}

// writeMsg: the sender's side of sendmsg(2): the packet carries len(b) bytes and the control
// messages found in oob; at most 253 rights per message (SCM_MAX_FD), else EINVAL.
func (m *sockModel) writeMsg(c *net.UnixConn, b, oob []byte, addr *net.UnixAddr) (int, int, error) {
	if m.sendErr {
		return 0, 0, syscall.EPIPE
	}
	p := &pkt{data: len(b)}
	for off := 0; off < len(oob); {
		switch oob[off] {
		case kindRights:
			n := int(oob[off+1])
			if n > 253 {
				return 0, 0, syscall.EINVAL
			}
			ct := ctl{kind: kindRights, level: syscall.SOL_SOCKET, typ: syscall.SCM_RIGHTS}
			for i := 0; i < n; i++ {
				ct.files = append(ct.files, 1000+int(oob[off+2+i])) // identity of the sender's open file
			}
			p.ctls = append(p.ctls, ct)
			off += cmsgSpace(4 * n)
		case kindCred:
			p.ctls = append(p.ctls, ctl{kind: kindCred, level: syscall.SOL_SOCKET, typ: syscall.SCM_CREDENTIALS,
				cred: syscall.Ucred{Pid: int32(oob[off+1]), Uid: uint32(oob[off+2]), Gid: uint32(oob[off+3])}})
			off += cmsgSpace(12)
		default:
			sym.Assert(false, "sender produced an unknown control message")
			return 0, 0, syscall.EINVAL
		}
	}
	m.inflight = p
	return len(b), len(oob), nil
}

// readMsg: recvmsg(2) with MSG_CMSG_CLOEXEC: payload truncated to len(b) (MSG_TRUNC); control
// messages are copied while they fit into oob (MSG_CTRUNC otherwise); every right that fits
// is INSTALLED as a new descriptor of the receiver, also when a flag is raised.
func (m *sockModel) readMsg(c *net.UnixConn, b, oob []byte) (n, oobn, flags int, addr *net.UnixAddr, err error) {
	if m.recvErr || m.inflight == nil {
		return 0, 0, 0, nil, syscall.ECONNRESET
	}
	p := m.inflight
	m.inflight = nil
	n = p.data
	if n > len(b) {
		n = len(b)
		flags |= syscall.MSG_TRUNC
	}
	m.installed = nil
	for _, ct := range p.ctls {
		var enc []byte
		switch ct.kind {
		case kindRights:
			space := cmsgSpace(4 * len(ct.files))
			fit := len(ct.files)
			if oobn+space > len(oob) {
				flags |= syscall.MSG_CTRUNC
				room := len(oob) - oobn - 16
				if room < 4 {
					fit = 0
				} else {
					fit = room / 4
					if fit > len(ct.files) {
						fit = len(ct.files)
					}
				}
				if fit == 0 {
					continue
				}
			}
			var fds []int
			for i := 0; i < fit; i++ {
				m.recv.next++
				fd := m.recv.next
				m.recv.open[fd] = ct.files[i]
				m.installed = append(m.installed, fd)
				fds = append(fds, fd)
			}
			enc = encRights(fds...)
			enc[1] = byte(len(fds))
		case kindCred:
			if oobn+cmsgSpace(12) > len(oob) {
				flags |= syscall.MSG_CTRUNC
				continue
			}
			cc := ct.cred
			enc = encCred(&cc)
		case kindOther:
			enc = make([]byte, cmsgSpace(4))
			enc[0] = kindOther
		}
		copy(oob[oobn:], enc)
		oobn += len(enc)
		if oobn > len(oob) {
			oobn = len(oob)
		}
	}
	return n, oobn, flags, nil, nil
}

func parseCtl(b []byte) ([]syscall.SocketControlMessage, error) {
	var msgs []syscall.SocketControlMessage
	for off := 0; off < len(b); {
		switch b[off] {
		case kindRights:
			n := int(b[off+1])
			sp := cmsgSpace(4 * n)
			if off+sp > len(b) {
				return nil, syscall.EINVAL
			}
			msgs = append(msgs, syscall.SocketControlMessage{Header: syscall.Cmsghdr{Level: syscall.SOL_SOCKET, Type: syscall.SCM_RIGHTS, Len: uint64(16 + 4*n)}, Data: b[off : off+sp]})
			off += sp
		case kindCred:
			msgs = append(msgs, syscall.SocketControlMessage{Header: syscall.Cmsghdr{Level: syscall.SOL_SOCKET, Type: syscall.SCM_CREDENTIALS, Len: 28}, Data: b[off : off+cmsgSpace(12)]})
			off += cmsgSpace(12)
		case kindOther:
			msgs = append(msgs, syscall.SocketControlMessage{Header: syscall.Cmsghdr{Level: 41, Type: 7, Len: 20}, Data: b[off : off+cmsgSpace(4)]})
			off += cmsgSpace(4)
		default:
			return nil, syscall.EINVAL
		}
	}
	return msgs, nil
}

func installSockModel() *sockModel {
	m := &sockModel{recv: fdtab{open: map[int]int{}, closes: map[int]int{}, next: 50}}
	M = m
	sym.Intercept("syscall.UnixRights", func(fds ...int) []byte { return encRights(fds...) })
	sym.Intercept("syscall.UnixCredentials", func(c *syscall.Ucred) []byte { return encCred(c) })
	sym.Intercept("(*net.UnixConn).WriteMsgUnix", m.writeMsg)
	sym.Intercept("(*net.UnixConn).ReadMsgUnix", m.readMsg)
	sym.Intercept("syscall.ParseSocketControlMessage", parseCtl)
	sym.Intercept("syscall.ParseUnixRights", func(sm *syscall.SocketControlMessage) ([]int, error) {
		if sm.Header.Type != syscall.SCM_RIGHTS {
			return nil, syscall.EINVAL
		}
		n := int(sm.Data[1])
		var fds []int
		for i := 0; i < n; i++ {
			fds = append(fds, int(sm.Data[2+i]))
		}
		return fds, nil
	})
	sym.Intercept("syscall.ParseUnixCredentials", func(sm *syscall.SocketControlMessage) (*syscall.Ucred, error) {
		if sm.Header.Type != syscall.SCM_CREDENTIALS {
			return nil, syscall.EINVAL
		}
		return &syscall.Ucred{Pid: int32(sm.Data[1]), Uid: uint32(sm.Data[2]), Gid: uint32(sm.Data[3])}, nil
	})
	sym.Intercept("syscall.Close", func(fd int) error {
		m.recv.closes[fd]++
		if _, ok := m.recv.open[fd]; !ok {
			return syscall.EBADF
		}
		delete(m.recv.open, fd)
		return nil
	})
	return m
}

// VerifC19_RoundTrip: one message from SendMsg to RecvMsg: payload length, receive buffer
// length, number of rights and presence of credentials are symbolic (small ranges).  A message
// is delivered whole with exactly the sender's descriptors (same open files, same order) and
// credentials, or rejected with an error; on EVERY error return of RecvMsg the descriptors the
// kernel installed for that packet are closed exactly once.
func VerifC19_RoundTrip() {
	m := installSockModel()
	snd := &Socket{UnixConn: &net.UnixConn{}, sendBuff: make([]byte, oobSize), recvBuff: make([]byte, oobSize)}
	rcvOob := oobSize
	if sym.Bool("small_oob") {
		rcvOob = 24 + 8*sym.Choose("oob_room", 3) // a receiver with a tiny control buffer
	}
	rcv := &Socket{UnixConn: &net.UnixConn{}, sendBuff: make([]byte, oobSize), recvBuff: make([]byte, rcvOob)}
	plen := sym.Choose("payload", 6)
	blen := sym.Choose("bufsize", 6)
	nfds := sym.Choose("nfds", 4)
	var fds []int
	for i := 0; i < nfds; i++ {
		fds = append(fds, 10+i)
	}
	msg := Msg{Fds: fds}
	if sym.Bool("with_cred") {
		msg.Cred = &syscall.Ucred{Pid: 77, Uid: 3, Gid: 4}
	}
	m.sendErr = sym.Bool("send_fails")
	err := snd.SendMsg(make([]byte, plen), msg)
	if m.sendErr {
		sym.Assert(err != nil, "a failing send must be reported")
		return
	}
	sym.Assert(err == nil, "a message that fits must be sent")
	m.recvErr = sym.Bool("recv_fails")
	n, got, err := rcv.RecvMsg(make([]byte, blen))
	if err != nil {
		sym.Reach("rejected")
		for _, fd := range m.installed {
			sym.Assert(m.recv.closes[fd] == 1, "a descriptor that arrived with a rejected message was leaked (or closed twice)")
		}
		sym.Assert(len(got.Fds) == 0, "a rejected message must not hand out descriptors")
		return
	}
	sym.Reach("delivered")
	sym.Assert(plen <= blen, "a truncated payload was delivered as success")
	sym.Assert(n == plen, "the payload length must be the sender's")
	sym.Assert(len(got.Fds) == nfds, "exactly the sender's descriptors must arrive")
	for i := range got.Fds {
		if i < nfds {
			sym.Assert(m.recv.open[got.Fds[i]] == 1000+fds[i], "descriptor i must refer to the sender's i-th open file")
		}
	}
	if msg.Cred != nil {
		sym.Assert(got.Cred != nil && *got.Cred == *msg.Cred, "credentials must arrive intact")
	}
	for _, fd := range m.installed {
		sym.Assert(m.recv.closes[fd] == 0, "a delivered descriptor was closed")
	}
}

// VerifC19_HostilePeer: what arrives is arbitrary (up to two control messages of symbolic kind:
// rights, credentials, foreign level; at most one SCM_RIGHTS message, since Linux merges all
// rights of one sendmsg into a single message): every descriptor the kernel installed is
// either handed to the caller or closed exactly once.
func VerifC19_HostilePeer() {
	m := installSockModel()
	rcv := &Socket{UnixConn: &net.UnixConn{}, sendBuff: make([]byte, oobSize), recvBuff: make([]byte, oobSize)}
	p := &pkt{data: 1}
	nc := sym.Choose("nctl", 3)
	haveRights := false
	for i := 0; i < nc; i++ {
		kind := sym.Choose("ctl_kind", 3)
		if kind == 0 && haveRights {
			kind = 2
		}
		switch kind {
		case 0:
			haveRights = true
			k := 1 + sym.Choose("nrights", 2)
			ct := ctl{kind: kindRights}
			for j := 0; j < k; j++ {
				ct.files = append(ct.files, 2000+10*i+j)
			}
			p.ctls = append(p.ctls, ct)
		case 1:
			p.ctls = append(p.ctls, ctl{kind: kindCred, cred: syscall.Ucred{Pid: 5, Uid: 6, Gid: 7}})
		case 2:
			p.ctls = append(p.ctls, ctl{kind: kindOther})
		}
	}
	m.inflight = p
	_, got, err := rcv.RecvMsg(make([]byte, 4))
	handed := map[int]bool{}
	if err == nil {
		sym.Reach("delivered")
		for _, fd := range got.Fds {
			handed[fd] = true
		}
	} else {
		sym.Reach("rejected")
	}
	for _, fd := range m.installed {
		if handed[fd] {
			sym.Assert(m.recv.closes[fd] == 0, "a descriptor handed to the caller was closed")
		} else {
			sym.Extra("class", "unhanded-descriptor")
			sym.Assert(m.recv.closes[fd] == 1, "a descriptor installed by the kernel was neither handed to the caller nor closed")
		}
	}
}
