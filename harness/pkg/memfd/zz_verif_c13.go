package memfd

import (
	"io"
	"os"
	"syscall"
	"time"

	"golang.org/x/sys/unix"

	"github.com/criyle/go-sandbox/zzverif/sym"
)

type memInfo struct{ size int64 }

func (m memInfo) Name() string       { return "f" }
func (m memInfo) Size() int64        { return m.size }
func (m memInfo) Mode() os.FileMode  { return 0644 }
func (m memInfo) ModTime() time.Time { return time.Time{} }
func (m memInfo) IsDir() bool        { return false }
func (m memInfo) Sys() any           { return nil }

type srcReader struct {
	data []byte
	off  int
}

func (r *srcReader) Read(p []byte) (int, error) {
	if r.off >= len(r.data) {
		return 0, io.EOF
	}
	n := copy(p, r.data[r.off:])
	r.off += n
	return n, nil
}

// VerifC13_Memfd: a sealed in-memory executable contains exactly the supplied bytes, is
// positioned at its start and carries all four seals, applied after the copy; every failing
// step (symbolic fault at create / copy / seal / seek) closes the descriptor and returns no file.
func VerifC13_Memfd() {
	const fd = 9
	var (
		createFlags = -1
		content     []byte
		seals       = 0
		sealedAfter = false
		copied      = false
		offset      = int64(-1)
		closes      = 0
		writesAfter = 0
	)
	data := sym.Bytes("exe", 3)
	src := &srcReader{data: data}
	// the reader is a plain io.Reader, or an *os.File on a regular file positioned anywhere
	// (the bytes it supplies are those from its position to the end)
	var reader io.Reader = src
	var srcFile *os.File
	srcPos := 0
	if sym.Bool("reader_is_file") {
		srcFile = new(os.File)
		srcPos = sym.Choose("file_position", 4)
		src.off = srcPos
		reader = srcFile
		sym.Intercept("(*os.File).Read", func(f *os.File, p []byte) (int, error) {
			sym.Assert(f == srcFile, "model: read of an unknown file")
			return src.Read(p)
		})
		sym.Intercept("(*os.File).Stat", func(f *os.File) (os.FileInfo, error) {
			if f == srcFile {
				return memInfo{size: int64(len(data))}, nil
			}
			return memInfo{size: int64(len(content))}, nil
		})
		sym.Intercept("(*os.File).Truncate", func(f *os.File, size int64) error {
			sym.Assert(f != srcFile, "the source file must not be modified")
			// ftruncate on the memfd: shrink or zero-extend
			for int64(len(content)) < size {
				content = append(content, 0)
			}
			content = content[:size]
			return nil
		})
	}
	supplied := data[srcPos:]
	failAt := sym.Choose("fail_at", 5) // 0 none, 1 create, 2 copy, 3 seal, 4 seek
	files := map[*os.File]bool{}
	sym.Intercept("golang.org/x/sys/unix.MemfdCreate", func(name string, flags int) (int, error) {
		if failAt == 1 {
			return -1, syscall.ENOMEM
		}
		createFlags = flags
		return fd, nil
	})
	sym.Intercept("os.NewFile", func(d uintptr, name string) *os.File {
		f := new(os.File)
		files[f] = true
		return f
	})
	sym.Intercept("(*os.File).Fd", func(f *os.File) uintptr { return fd })
	sym.Intercept("(*os.File).ReadFrom", func(f *os.File, r io.Reader) (int64, error) {
		buf := make([]byte, 2)
		wpos := 0 // the memfd's file position (nothing was written before the copy)
		for {
			n, err := r.Read(buf)
			if seals&unix.F_SEAL_WRITE != 0 && n > 0 {
				writesAfter++
			}
			for _, b := range buf[:n] { // write(2) at the file position: overwrite, extend at the end
				if wpos < len(content) {
					content[wpos] = b
				} else {
					content = append(content, b)
				}
				wpos++
			}
			if failAt == 2 {
				return int64(len(content)), syscall.EIO
			}
			if err == io.EOF {
				break
			}
			if err != nil {
				return int64(len(content)), err
			}
		}
		copied = true
		offset = int64(len(content))
		return int64(len(content)), nil
	})
	sym.Intercept("golang.org/x/sys/unix.FcntlInt", func(d uintptr, cmd, arg int) (int, error) {
		if failAt == 3 {
			return -1, syscall.EPERM
		}
		if cmd == unix.F_ADD_SEALS && int(d) == fd {
			seals |= arg
			sealedAfter = copied
		}
		return 0, nil
	})
	sym.Intercept("(*os.File).Seek", func(f *os.File, off int64, whence int) (int64, error) {
		if failAt == 4 {
			return 0, syscall.ESPIPE
		}
		if whence == 0 {
			offset = off
		}
		return offset, nil
	})
	sym.Intercept("(*os.File).Close", func(f *os.File) error { closes++; return nil })
	sym.Intercept("golang.org/x/sys/unix.Close", func(d int) error { closes++; return nil })

	f, err := DupToMemfd("prog", reader)
	if failAt != 0 {
		sym.Reach("failure")
		sym.Assert(err != nil && f == nil, "a failing step must be reported and no file returned")
		if failAt > 1 {
			sym.Assert(closes == 1, "the descriptor must be closed exactly once on failure")
		}
		return
	}
	sym.Reach("success")
	sym.Assert(err == nil && f != nil, "all steps succeeded: a file must be returned")
	sym.Assert(createFlags&unix.MFD_CLOEXEC != 0 && createFlags&unix.MFD_ALLOW_SEALING != 0, "memfd must be created close-on-exec and sealable")
	sym.Assert(len(content) == len(supplied), "the memfd must contain exactly the supplied bytes")
	for i := range supplied {
		if i < len(content) {
			sym.Assert(content[i] == supplied[i], "content differs from the supplied bytes")
		}
	}
	const want = unix.F_SEAL_SEAL | unix.F_SEAL_SHRINK | unix.F_SEAL_GROW | unix.F_SEAL_WRITE
	sym.Assert(seals&want == want, "all of SEAL|SHRINK|GROW|WRITE must be applied")
	sym.Assert(sealedAfter && writesAfter == 0, "seals must be applied after the copy")
	sym.Assert(offset == 0, "the file must be positioned at its start")
	sym.Assert(closes == 0, "a successfully created file must not be closed")
}
