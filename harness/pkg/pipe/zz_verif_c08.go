package pipe

import (
	"io"
	"os"
	"syscall"

	"github.com/criyle/go-sandbox/zzverif/sym"
)

// K-PIPE: a pipe with a small capacity: write blocks while it is full, fails with EPIPE
// once the read end is closed; read returns an arbitrary non-empty prefix of what is
// buffered, blocks while empty, and reports EOF when the write end is closed and drained.
type mpipe struct {
	buf          int // bytes buffered
	capacity     int
	readClosed   bool
	writeClosed  bool
	totalRead    int
	totalWritten int
}

// VerifC08_OutputCollector: a collector capped at N bytes never retains more than N+1,
// signals Done once the cap is exceeded or the writer finished, and keeps draining so that a
// program writing T bytes (any T relative to N, any chunking, writer faster than reader) is
// never blocked forever and never gets EPIPE.
func VerifC08_OutputCollector() { c08collector(false) }

// VerifC08_OutputCollectorBulk: the same collector against a program that writes 3 MiB
// through a 64 KiB pipe (deterministic full-size transfers): however much is written beyond
// the cap, the collector keeps draining - the writer is never blocked and never sees EPIPE.
func VerifC08_OutputCollectorBulk() { c08collector(true) }

func c08collector(bulk bool) {
	p := &mpipe{capacity: 3}
	if bulk {
		p.capacity = 64 << 10
	}
	var rf, wf *os.File
	sym.Intercept("os.Pipe", func() (*os.File, *os.File, error) {
		rf, wf = new(os.File), new(os.File)
		return rf, wf, nil
	})
	read := func(f *os.File, b []byte) (int, error) {
		sym.Yield()
		if f != rf {
			return 0, syscall.EBADF
		}
		sym.WaitUntil(func() bool { return p.buf > 0 || p.writeClosed || p.readClosed })
		if p.readClosed {
			return 0, os.ErrClosed
		}
		if p.buf == 0 {
			return 0, io.EOF
		}
		n := p.buf
		if !bulk {
			n = 1 + sym.Choose("read_chunk", p.buf)
		}
		if n > len(b) {
			n = len(b)
		}
		p.buf -= n
		p.totalRead += n
		for i := 0; i < n && (!bulk || i < 4); i++ {
			b[i] = 'o'
		}
		return n, nil
	}
	sym.Intercept("(*os.File).Read", read)
	sym.Intercept("(*os.File).WriteTo", func(f *os.File, w io.Writer) (int64, error) {
		// os.File's WriterTo fast path: generic copy loop
		var total int64
		buf := make([]byte, 4)
		if bulk {
			buf = make([]byte, 32<<10)
		}
		for {
			n, err := read(f, buf)
			if n > 0 {
				w.Write(buf[:n])
				total += int64(n)
			}
			if err == io.EOF {
				return total, nil
			}
			if err != nil {
				return total, err
			}
		}
	})
	sym.Intercept("(*os.File).Close", func(f *os.File) error {
		sym.Yield()
		if f == rf {
			p.readClosed = true
		} else {
			p.writeClosed = true
		}
		return nil
	})
	N := int64(sym.Choose("cap", 3))
	T := 0
	if bulk {
		T = 3 << 20
	} else {
		T = sym.Choose("total", 7)
	}
	b, err := NewBuffer(N)
	sym.Assert(err == nil && b != nil, "NewBuffer must succeed")
	if b == nil {
		return
	}
	// the sandboxed program: writes T bytes in chunks, then closes its end
	brokenPipe := false
	writerDone := false
	go func() {
		left := T
		for left > 0 {
			sym.Yield()
			sym.WaitUntil(func() bool { return p.buf < p.capacity || p.readClosed })
			if p.readClosed {
				brokenPipe = true
				break
			}
			n := 1
			if bulk {
				n = p.capacity - p.buf
				if n > left {
					n = left
				}
			} else if left > 1 && p.capacity-p.buf > 1 && sym.Bool("two_byte_write") {
				n = 2
			}
			p.buf += n
			p.totalWritten += n
			left -= n
		}
		sym.Yield()
		p.writeClosed = true
		writerDone = true
	}()
	<-b.Done
	sym.Reach("done-signalled")
	want := int64(T)
	if want > N+1 {
		want = N + 1
	}
	sym.Assert(int64(b.Buffer.Len()) == want, "Done must be signalled exactly when min(T, N+1) bytes were collected")
	sym.WaitOthers()
	sym.Assert(writerDone, "the writing program is blocked forever")
	sym.Assert(!brokenPipe, "the writing program got EPIPE/SIGPIPE while the collector was still responsible for the pipe")
	sym.Assert(int64(b.Buffer.Len()) <= N+1, "the collector retained more than N+1 bytes")
	sym.Assert(p.totalRead == T, "the collector must drain everything the program wrote")
	sym.Assert(p.readClosed, "the read end must be closed after EOF")
	if int64(T) > N+1 {
		sym.Reach("over-cap")
	}
}
