#!/bin/sh
# Builds the symgo engine from the sources on disk (offline) and runs its self-test.
set -e
cd "$(dirname "$0")"
export GOFLAGS=-mod=mod GOPROXY=off CGO_ENABLED=0
mkdir -p bin evidence .work replays
(cd engine && go build -o ../bin/symgo .)
echo "symgo built: $(ls -la bin/symgo | awk '{print $5}') bytes"
z3 --version
# translator validation: interpreter vs native on concrete inputs (must agree)
./selftest.py
