#!/bin/bash
# Re-generates every evidence file from the quick tier on the current (clean) tree.
cd /verif
for p in C01 C02 C03 C04 C05 C06 C07 C08 C09 C10 C11 C12 C13 C14 C15 C16 C17 C18 C19 C20; do
  ./check $p --tier quick 2>&1 | tail -1
done
