#!/usr/bin/env python3
"""Cross-solver diff of the encoding: a sample of the queries decided by z3 4.8.12 during real
checks is re-decided standalone by z3-new (5.x) and cvc5; any disagreement (or `(error`) is
reported.  Usage: solver_diff.py [harness-spec ...]   (default: a fixed set of harnesses, one
per encoding family: strings/maps, bit-vectors over syscall tables, 64-bit flag words, byte
layouts)."""
import os, subprocess, sys, tempfile, glob, shutil
ROOT = os.path.dirname(os.path.abspath(__file__))
REPO = os.environ.get("VERIF_REPO", "/repo")
ENV = dict(os.environ, GOFLAGS="-mod=mod", GOPROXY="off")
DEFAULT = [("./runner/ptrace/filehandler", "^VerifC18_InSet_Quick$", 20), ("./pkg/seccomp/libseccomp", "^VerifC01_k1m1$", 10),
           ("./runner/ptrace", "^VerifC02_OpenFlags$", 5), ("./pkg/rlimit", "^VerifC08_PrepareRLimit$", 2),
           ("./ptracer", "^VerifC15_GetString_Quick$", 40), ("./pkg/forkexec", "^VerifC06_Files2_p0$", 400)]
SOLVERS = [("z3-new", ["z3-new", "-T:60"]), ("cvc5", ["cvc5", "--tlimit=60000"])]
bad = total = 0
work = tempfile.mkdtemp(prefix="solverdiff_")
for k, (pkg, run, every) in enumerate(DEFAULT):
    d = os.path.join(work, str(k))
    subprocess.run([os.path.join(ROOT, "bin", "symgo"), "-dir", REPO, "-overlay", os.path.join(ROOT, "harness"), "-pkg", pkg, "-run", run,
                    "-preempt", "0", "-timeout", "600", "-dump-queries", d, "-dump-every", str(every)], env=ENV, stdout=subprocess.DEVNULL, stderr=subprocess.DEVNULL)
    files = sorted(glob.glob(os.path.join(d, "*.smt2")))[:40]
    agree = {name: 0 for name, _ in SOLVERS}
    for f in files:
        want = open(f).readline().split()[-1]
        for name, cmd in SOLVERS:
            r = subprocess.run(cmd + [f], text=True, stdout=subprocess.PIPE, stderr=subprocess.STDOUT)
            out = r.stdout.strip().splitlines()
            got = out[0].strip() if out else "?"
            total += 1
            if "(error" in r.stdout or got not in ("sat", "unsat"):
                print("SOLVER-DIFF inconclusive %s on %s: %s" % (name, f, r.stdout[:200].replace("\n", " "))); bad += 1
            elif got != want:
                print("SOLVER-DIFF DISAGREE %s says %s, z3 4.8.12 said %s: %s" % (name, got, want, f)); bad += 1
            else:
                agree[name] += 1
    print("solver-diff %s %s: %d sampled queries, agree: %s" % (pkg, run, len(files), agree))
if not bad:
    shutil.rmtree(work)
print("solver-diff total=%d disagreements_or_inconclusive=%d" % (total, bad))
sys.exit(1 if bad else 0)
