package main

// Persistent SMT solver process (z3 -in by default).  All terms are defined once
// at top level as macros (define-fun); queries are check-sat-assuming over the
// literals of the current path condition.  Any "(error" or "unknown" answer is
// surfaced as resUnknown: it is never treated as success by callers.

import (
	"bufio"
	"fmt"
	"io"
	"os"
	"os/exec"
	"strconv"
	"strings"
	"time"
)

type satResult int

const (
	resSat satResult = iota
	resUnsat
	resUnknown
)

func (r satResult) String() string {
	return [...]string{"sat", "unsat", "unknown"}[r]
}

type Solver struct {
	cmd      *exec.Cmd
	in       io.WriteCloser
	out      *bufio.Reader
	defined  map[*Term]bool
	declared map[string]bool
	log      *bufio.Writer // optional transcript
	// statistics
	nQueries   int
	nSat       int
	nUnsat     int
	nUnknown   int
	solverTime time.Duration
	timeoutMS  int
	cache      map[string]satResult
	cacheHits  int
	useEval    bool
	// cross-solver diff: every dumpEvery-th decided query is written as a standalone script
	dumpDir   string
	dumpEvery int
	dumped    int
}

func newSolver(bin string, args []string, timeoutMS int, transcript string) (*Solver, error) {
	cmd := exec.Command(bin, args...)
	in, err := cmd.StdinPipe()
	if err != nil {
		return nil, err
	}
	outp, err := cmd.StdoutPipe()
	if err != nil {
		return nil, err
	}
	cmd.Stderr = os.Stderr
	if err := cmd.Start(); err != nil {
		return nil, err
	}
	s := &Solver{cmd: cmd, in: in, out: bufio.NewReaderSize(outp, 1<<16),
		defined: map[*Term]bool{}, declared: map[string]bool{}, timeoutMS: timeoutMS,
		cache: map[string]satResult{}}
	if transcript != "" {
		f, err := os.Create(transcript)
		if err == nil {
			s.log = bufio.NewWriter(f)
		}
	}
	s.send("(set-option :print-success false)")
	if strings.Contains(bin, "z3") {
		s.send(fmt.Sprintf("(set-option :timeout %d)", timeoutMS))
		s.useEval = true
	}
	s.send("(set-option :produce-models true)")
	s.send("(set-logic ALL)")
	return s, nil
}

func (s *Solver) close() {
	if s == nil || s.cmd == nil {
		return
	}
	s.in.Close()
	s.cmd.Process.Kill()
	s.cmd.Wait()
	if s.log != nil {
		s.log.Flush()
	}
}

func (s *Solver) send(line string) {
	if s.log != nil {
		s.log.WriteString(line)
		s.log.WriteByte('\n')
	}
	io.WriteString(s.in, line)
	io.WriteString(s.in, "\n")
}

func sortOf(t *Term) string {
	if t.w == 0 {
		return "Bool"
	}
	return "(_ BitVec " + strconv.Itoa(t.w) + ")"
}

// ref returns the solver-side name of t, defining it (and its sub-terms) first.
func (s *Solver) ref(t *Term) string {
	switch t.op {
	case "const", "true", "false":
		return t.smtInline(nil)
	case "var":
		if !s.declared[t.name] {
			s.declared[t.name] = true
			s.send(fmt.Sprintf("(declare-const %s %s)", t.name, sortOf(t)))
		}
		return t.name
	}
	if t.smtID == "" {
		t.smtID = "t!" + strconv.Itoa(t.id)
	}
	if !s.defined[t] {
		// define args first (iteratively deep DAGs are fine: recursion depth = term depth)
		body := t.smtInline(s.ref)
		s.send(fmt.Sprintf("(define-fun %s () %s %s)", t.smtID, sortOf(t), body))
		s.defined[t] = true
	}
	return t.smtID
}

func (s *Solver) readLine() string {
	line, err := s.out.ReadString('\n')
	if err != nil {
		return "(error \"solver died: " + err.Error() + "\")"
	}
	return strings.TrimSpace(line)
}

// check decides satisfiability of the conjunction of lits.
func (s *Solver) check(lits []*Term) satResult {
	// trivial cases
	var names []string
	for _, l := range lits {
		if l == tTrue {
			continue
		}
		if l == tFalse {
			return resUnsat
		}
		names = append(names, s.ref(l))
	}
	if len(names) == 0 {
		return resSat
	}
	key := strings.Join(names, " ")
	if r, ok := s.cache[key]; ok {
		s.cacheHits++
		return r
	}
	s.nQueries++
	t0 := time.Now()
	s.send("(check-sat-assuming (" + key + "))")
	var res satResult
	for {
		line := s.readLine()
		if line == "" {
			continue
		}
		switch {
		case line == "sat":
			res = resSat
		case line == "unsat":
			res = resUnsat
		case strings.HasPrefix(line, "(error"):
			fmt.Fprintln(os.Stderr, "solver:", line)
			res = resUnknown
		default:
			res = resUnknown
		}
		break
	}
	s.solverTime += time.Since(t0)
	switch res {
	case resSat:
		s.nSat++
	case resUnsat:
		s.nUnsat++
	default:
		s.nUnknown++
	}
	if res != resUnknown {
		s.cache[key] = res
		if s.dumpDir != "" && s.dumpEvery > 0 && s.nQueries%s.dumpEvery == 0 && s.dumped < 200 {
			s.dumped++
			if f, err := os.Create(fmt.Sprintf("%s/q%06d_%s.smt2", s.dumpDir, s.nQueries, res)); err == nil {
				w := bufio.NewWriter(f)
				fmt.Fprintf(w, "; expected: %s\n", res)
				dumpStandalone(w, lits)
				w.Flush()
				f.Close()
			}
		}
	}
	return res
}

// model fetches values for the given variables after a sat answer for lits.
func (s *Solver) model(lits []*Term, vars []*Term) (map[string]uint64, bool) {
	// re-issue the query un-cached to make sure the solver state holds this model
	var names []string
	for _, l := range lits {
		if l == tTrue {
			continue
		}
		if l == tFalse {
			return nil, false
		}
		names = append(names, s.ref(l))
	}
	for _, v := range vars {
		s.ref(v)
	}
	t0 := time.Now()
	s.nQueries++
	if len(names) == 0 {
		s.send("(check-sat)")
	} else {
		s.send("(check-sat-assuming (" + strings.Join(names, " ") + "))")
	}
	line := s.readLine()
	s.solverTime += time.Since(t0)
	if line != "sat" {
		s.nUnknown++
		return nil, false
	}
	s.nSat++
	m := map[string]uint64{}
	if len(vars) == 0 {
		return m, true
	}
	if s.useEval {
		// z3: (eval v) is evaluated lazily; (get-value ...) builds a complete model of every
		// define-fun and takes ~0.5 s with a few thousand definitions
		for _, v := range vars {
			s.send("(eval " + v.name + ")")
		}
		for _, v := range vars {
			val := s.readLine()
			var x uint64
			switch {
			case val == "true":
				x = 1
			case val == "false":
				x = 0
			case strings.HasPrefix(val, "#x"):
				x, _ = strconv.ParseUint(val[2:], 16, 64)
			case strings.HasPrefix(val, "#b"):
				x, _ = strconv.ParseUint(val[2:], 2, 64)
			case strings.HasPrefix(val, "(_ bv"):
				f := strings.Fields(val[5:])
				x, _ = strconv.ParseUint(f[0], 10, 64)
			default:
				if strings.HasPrefix(val, "(error") {
					return nil, false
				}
				// unconstrained variable echoed back: any value will do
				x = 0
			}
			m[v.name] = x
		}
		return m, true
	}
	var sb strings.Builder
	sb.WriteString("(get-value (")
	for _, v := range vars {
		sb.WriteString(v.name)
		sb.WriteByte(' ')
	}
	sb.WriteString("))")
	s.send(sb.String())
	// read balanced s-expression
	depth := 0
	var text strings.Builder
	started := false
	for {
		line, err := s.out.ReadString('\n')
		if err != nil {
			return nil, false
		}
		text.WriteString(line)
		for _, c := range line {
			if c == '(' {
				depth++
				started = true
			} else if c == ')' {
				depth--
			}
		}
		if started && depth <= 0 {
			break
		}
	}
	txt := text.String()
	if strings.Contains(txt, "(error") {
		return nil, false
	}
	// parse pairs "(name value)"
	toks := tokenize(txt)
	// toks: ( ( name val ) ( name val ) ... )
	i := 0
	next := func() string {
		if i < len(toks) {
			i++
			return toks[i-1]
		}
		return ""
	}
	next() // (
	for i < len(toks) {
		if next() != "(" {
			break
		}
		name := next()
		val := next()
		var v uint64
		switch {
		case val == "true":
			v = 1
		case val == "false":
			v = 0
		case strings.HasPrefix(val, "#x"):
			v, _ = strconv.ParseUint(val[2:], 16, 64)
		case strings.HasPrefix(val, "#b"):
			v, _ = strconv.ParseUint(val[2:], 2, 64)
		case val == "(":
			// (_ bvN w)
			next() // _
			bv := next()
			next() // w
			next() // )
			v, _ = strconv.ParseUint(strings.TrimPrefix(bv, "bv"), 10, 64)
		}
		m[name] = v
		next() // )
	}
	return m, true
}

func tokenize(s string) []string {
	var toks []string
	cur := strings.Builder{}
	flush := func() {
		if cur.Len() > 0 {
			toks = append(toks, cur.String())
			cur.Reset()
		}
	}
	inBar := false
	for _, c := range s {
		if inBar {
			cur.WriteRune(c)
			if c == '|' {
				inBar = false
			}
			continue
		}
		switch c {
		case '|':
			cur.WriteRune(c)
			inBar = true
		case '(', ')':
			flush()
			toks = append(toks, string(c))
		case ' ', '\n', '\t', '\r':
			flush()
		default:
			cur.WriteRune(c)
		}
	}
	flush()
	return toks
}

// dumpStandalone writes a self-contained SMT-LIB2 script deciding the conjunction
// of lits; used for the cross-solver diff in the thorough tier.
func dumpStandalone(w io.Writer, lits []*Term) {
	fmt.Fprintln(w, "(set-logic ALL)")
	seen := map[*Term]bool{}
	var order []*Term
	var visit func(t *Term)
	visit = func(t *Term) {
		if seen[t] {
			return
		}
		seen[t] = true
		for _, a := range t.args {
			visit(a)
		}
		order = append(order, t)
	}
	for _, l := range lits {
		visit(l)
	}
	ref := func(t *Term) string {
		switch t.op {
		case "const", "true", "false":
			return t.smtInline(nil)
		case "var":
			return t.name
		}
		return "t!" + strconv.Itoa(t.id)
	}
	for _, t := range order {
		switch t.op {
		case "const", "true", "false":
		case "var":
			fmt.Fprintf(w, "(declare-const %s %s)\n", t.name, sortOf(t))
		default:
			fmt.Fprintf(w, "(define-fun t!%d () %s %s)\n", t.id, sortOf(t), t.smtInline(ref))
		}
	}
	for _, l := range lits {
		fmt.Fprintf(w, "(assert %s)\n", ref(l))
	}
	fmt.Fprintln(w, "(check-sat)")
}
