package main

// Concrete-native shortcut: pure standard-library functions whose arguments are all
// concrete are computed natively (same toolchain, same code) instead of being
// interpreted.  With any symbolic argument the function is interpreted from its SSA.

import (
	"path/filepath"
	"strconv"
	"strings"
)

func strArg(v value) (string, bool) {
	s, ok := v.(string)
	return s, ok
}

func strsArg(v value) ([]string, bool) {
	sl, ok := v.([]value)
	if !ok {
		return nil, false
	}
	r := make([]string, len(sl))
	for i, e := range sl {
		s, ok := e.(string)
		if !ok {
			return nil, false
		}
		r[i] = s
	}
	return r, true
}

func strsVal(ss []string) value {
	r := make([]value, len(ss))
	for i, s := range ss {
		r[i] = s
	}
	return r
}

type nativeFn func(args []value) (value, bool)

func s1(f func(string) string) nativeFn {
	return func(a []value) (value, bool) {
		x, ok := strArg(a[0])
		if !ok {
			return nil, false
		}
		return f(x), true
	}
}

func s2b(f func(string, string) bool) nativeFn {
	return func(a []value) (value, bool) {
		x, ok1 := strArg(a[0])
		y, ok2 := strArg(a[1])
		if !ok1 || !ok2 {
			return nil, false
		}
		return f(x, y), true
	}
}

func s2s(f func(string, string) string) nativeFn {
	return func(a []value) (value, bool) {
		x, ok1 := strArg(a[0])
		y, ok2 := strArg(a[1])
		if !ok1 || !ok2 {
			return nil, false
		}
		return f(x, y), true
	}
}

func s2i(f func(string, string) int) nativeFn {
	return func(a []value) (value, bool) {
		x, ok1 := strArg(a[0])
		y, ok2 := strArg(a[1])
		if !ok1 || !ok2 {
			return nil, false
		}
		return f(x, y), true
	}
}

var natives = map[string]nativeFn{
	"path/filepath.Clean": s1(filepath.Clean),
	"path/filepath.Dir":   s1(filepath.Dir),
	"path/filepath.Base":  s1(filepath.Base),
	"path/filepath.IsAbs": func(a []value) (value, bool) {
		x, ok := strArg(a[0])
		if !ok {
			return nil, false
		}
		return filepath.IsAbs(x), true
	},
	"path/filepath.Join": func(a []value) (value, bool) {
		ss, ok := strsArg(a[0])
		if !ok {
			return nil, false
		}
		return filepath.Join(ss...), true
	},
	"strings.HasPrefix":  s2b(strings.HasPrefix),
	"strings.HasSuffix":  s2b(strings.HasSuffix),
	"strings.Contains":   s2b(strings.Contains),
	"strings.TrimPrefix": s2s(strings.TrimPrefix),
	"strings.TrimSuffix": s2s(strings.TrimSuffix),
	"strings.Index":      s2i(strings.Index),
	"strings.LastIndex":  s2i(strings.LastIndex),
	"strings.TrimSpace":  s1(strings.TrimSpace),
	"strings.ToLower":    s1(strings.ToLower),
	"strings.Split": func(a []value) (value, bool) {
		x, ok1 := strArg(a[0])
		y, ok2 := strArg(a[1])
		if !ok1 || !ok2 {
			return nil, false
		}
		return strsVal(strings.Split(x, y)), true
	},
	"strings.Fields": func(a []value) (value, bool) {
		x, ok := strArg(a[0])
		if !ok {
			return nil, false
		}
		return strsVal(strings.Fields(x)), true
	},
	"strings.Join": func(a []value) (value, bool) {
		ss, ok1 := strsArg(a[0])
		sep, ok2 := strArg(a[1])
		if !ok1 || !ok2 {
			return nil, false
		}
		return strings.Join(ss, sep), true
	},
	"strings.LastIndexByte": func(a []value) (value, bool) {
		x, ok := strArg(a[0])
		c, ok2 := a[1].(uint8)
		if !ok || !ok2 {
			return nil, false
		}
		return strings.LastIndexByte(x, c), true
	},
	"strings.IndexByte": func(a []value) (value, bool) {
		x, ok := strArg(a[0])
		c, ok2 := a[1].(uint8)
		if !ok || !ok2 {
			return nil, false
		}
		return strings.IndexByte(x, c), true
	},
	"strconv.Itoa": func(a []value) (value, bool) {
		x, ok := a[0].(int)
		if !ok {
			return nil, false
		}
		return strconv.Itoa(x), true
	},
	"strconv.FormatUint": func(a []value) (value, bool) {
		x, ok := a[0].(uint64)
		b, ok2 := a[1].(int)
		if !ok || !ok2 {
			return nil, false
		}
		return strconv.FormatUint(x, b), true
	},
	"strconv.FormatInt": func(a []value) (value, bool) {
		x, ok := a[0].(int64)
		b, ok2 := a[1].(int)
		if !ok || !ok2 {
			return nil, false
		}
		return strconv.FormatInt(x, b), true
	},
}
