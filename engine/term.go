package main

// SMT terms: hash-consed bit-vector / boolean expression DAG with light
// constant folding.  Every Go integer of width w is a (_ BitVec w); Go bool is Bool.

import (
	"fmt"
	"strconv"
	"strings"
)

type Term struct {
	op    string // "const","var","bvadd",... ; for Bool: "true","false","and","or","not","=", "bvult",...
	w     int    // bit width; 0 = Bool
	args  []*Term
	cval  uint64 // for const (masked to w)
	name  string // for var
	p1    int    // extract hi / extend amount
	p2    int    // extract lo
	id    int
	key   string
	smtID string // name of let-bound / defined symbol, assigned lazily by solver
}

var termTab = map[string]*Term{}
var termSeq int

func mask(w int) uint64 {
	if w >= 64 {
		return ^uint64(0)
	}
	return (uint64(1) << uint(w)) - 1
}

func intern(t *Term) *Term {
	var sb strings.Builder
	sb.WriteString(t.op)
	sb.WriteByte('/')
	sb.WriteString(strconv.Itoa(t.w))
	switch t.op {
	case "const":
		sb.WriteByte('/')
		sb.WriteString(strconv.FormatUint(t.cval, 16))
	case "var":
		sb.WriteByte('/')
		sb.WriteString(t.name)
	case "extract", "zext", "sext":
		sb.WriteByte('/')
		sb.WriteString(strconv.Itoa(t.p1))
		sb.WriteByte('/')
		sb.WriteString(strconv.Itoa(t.p2))
	}
	for _, a := range t.args {
		sb.WriteByte(',')
		sb.WriteString(strconv.Itoa(a.id))
	}
	k := sb.String()
	if e, ok := termTab[k]; ok {
		return e
	}
	termSeq++
	t.id = termSeq
	t.key = k
	termTab[k] = t
	return t
}

func mkConst(w int, v uint64) *Term {
	return intern(&Term{op: "const", w: w, cval: v & mask(w)})
}

var tTrue = intern(&Term{op: "true"})
var tFalse = intern(&Term{op: "false"})

func mkBool(b bool) *Term {
	if b {
		return tTrue
	}
	return tFalse
}

func mkVar(name string, w int) *Term {
	return intern(&Term{op: "var", w: w, name: name})
}

func (t *Term) isConst() bool { return t.op == "const" }
func (t *Term) isBoolConst() bool {
	return t.op == "true" || t.op == "false"
}

func sx(v uint64, w int) int64 {
	if w >= 64 {
		return int64(v)
	}
	if v&(1<<uint(w-1)) != 0 {
		return int64(v | ^mask(w))
	}
	return int64(v)
}

// mkBV builds a bit-vector operation with folding.
func mkBV(op string, a, b *Term) *Term {
	w := a.w
	if a.w != b.w {
		panic(fmt.Sprintf("mkBV %s: width mismatch %d vs %d", op, a.w, b.w))
	}
	if a.isConst() && b.isConst() {
		x, y := a.cval, b.cval
		var r uint64
		ok := true
		switch op {
		case "bvadd":
			r = x + y
		case "bvsub":
			r = x - y
		case "bvmul":
			r = x * y
		case "bvand":
			r = x & y
		case "bvor":
			r = x | y
		case "bvxor":
			r = x ^ y
		case "bvudiv":
			if y == 0 {
				r = mask(w)
			} else {
				r = x / y
			}
		case "bvurem":
			if y == 0 {
				r = x
			} else {
				r = x % y
			}
		case "bvsdiv":
			if y == 0 {
				ok = false
			} else {
				sxv, syv := sx(x, w), sx(y, w)
				if syv == -1 {
					r = uint64(-sxv)
				} else {
					r = uint64(sxv / syv)
				}
			}
		case "bvsrem":
			if y == 0 {
				ok = false
			} else {
				sxv, syv := sx(x, w), sx(y, w)
				if syv == -1 {
					r = 0
				} else {
					r = uint64(sxv % syv)
				}
			}
		case "bvshl":
			if y >= uint64(w) {
				r = 0
			} else {
				r = x << y
			}
		case "bvlshr":
			if y >= uint64(w) {
				r = 0
			} else {
				r = x >> y
			}
		case "bvashr":
			s := sx(x, w)
			if y >= uint64(w) {
				if s < 0 {
					r = mask(w)
				} else {
					r = 0
				}
			} else {
				r = uint64(s >> y)
			}
		default:
			ok = false
		}
		if ok {
			return mkConst(w, r)
		}
	}
	// light identities
	switch op {
	case "bvand":
		if a.isConst() && a.cval == 0 || b.isConst() && b.cval == 0 {
			return mkConst(w, 0)
		}
		if a.isConst() && a.cval == mask(w) {
			return b
		}
		if b.isConst() && b.cval == mask(w) {
			return a
		}
		if a == b {
			return a
		}
	case "bvor":
		if a.isConst() && a.cval == 0 {
			return b
		}
		if b.isConst() && b.cval == 0 {
			return a
		}
		if a == b {
			return a
		}
	case "bvadd":
		if a.isConst() && a.cval == 0 {
			return b
		}
		if b.isConst() && b.cval == 0 {
			return a
		}
	case "bvsub":
		if b.isConst() && b.cval == 0 {
			return a
		}
		if a == b {
			return mkConst(w, 0)
		}
	case "bvxor":
		if a == b {
			return mkConst(w, 0)
		}
		if b.isConst() && b.cval == 0 {
			return a
		}
		if a.isConst() && a.cval == 0 {
			return b
		}
	case "bvshl", "bvlshr", "bvashr":
		if b.isConst() && b.cval == 0 {
			return a
		}
	case "bvmul":
		if a.isConst() && a.cval == 1 {
			return b
		}
		if b.isConst() && b.cval == 1 {
			return a
		}
		if a.isConst() && a.cval == 0 || b.isConst() && b.cval == 0 {
			return mkConst(w, 0)
		}
	}
	return intern(&Term{op: op, w: w, args: []*Term{a, b}})
}

func mkNeg(a *Term) *Term {
	if a.isConst() {
		return mkConst(a.w, -a.cval)
	}
	return intern(&Term{op: "bvneg", w: a.w, args: []*Term{a}})
}

func mkBVNot(a *Term) *Term {
	if a.isConst() {
		return mkConst(a.w, ^a.cval)
	}
	return intern(&Term{op: "bvnot", w: a.w, args: []*Term{a}})
}

// mkCmp builds a comparison (result Bool). op in =, bvult, bvule, bvslt, bvsle.
func mkCmp(op string, a, b *Term) *Term {
	if a.w != b.w {
		panic(fmt.Sprintf("mkCmp %s: width mismatch %d vs %d", op, a.w, b.w))
	}
	if a.w == 0 {
		// boolean equality
		if op != "=" {
			panic("mkCmp bool " + op)
		}
		if a.isBoolConst() && b.isBoolConst() {
			return mkBool(a == b)
		}
		if a == b {
			return tTrue
		}
		if a == tTrue {
			return b
		}
		if b == tTrue {
			return a
		}
		if a == tFalse {
			return mkNot(b)
		}
		if b == tFalse {
			return mkNot(a)
		}
		return intern(&Term{op: "=", w: 0, args: []*Term{a, b}})
	}
	if a.isConst() && b.isConst() {
		x, y := a.cval, b.cval
		switch op {
		case "=":
			return mkBool(x == y)
		case "bvult":
			return mkBool(x < y)
		case "bvule":
			return mkBool(x <= y)
		case "bvslt":
			return mkBool(sx(x, a.w) < sx(y, a.w))
		case "bvsle":
			return mkBool(sx(x, a.w) <= sx(y, a.w))
		}
	}
	if a == b {
		switch op {
		case "=", "bvule", "bvsle":
			return tTrue
		default:
			return tFalse
		}
	}
	if op == "=" && a.id > b.id {
		a, b = b, a
	}
	return intern(&Term{op: op, w: 0, args: []*Term{a, b}})
}

func mkNot(a *Term) *Term {
	if a == tTrue {
		return tFalse
	}
	if a == tFalse {
		return tTrue
	}
	if a.op == "not" {
		return a.args[0]
	}
	return intern(&Term{op: "not", w: 0, args: []*Term{a}})
}

func mkAnd(a, b *Term) *Term {
	if a == tFalse || b == tFalse {
		return tFalse
	}
	if a == tTrue {
		return b
	}
	if b == tTrue {
		return a
	}
	if a == b {
		return a
	}
	return intern(&Term{op: "and", w: 0, args: []*Term{a, b}})
}

func mkOr(a, b *Term) *Term {
	if a == tTrue || b == tTrue {
		return tTrue
	}
	if a == tFalse {
		return b
	}
	if b == tFalse {
		return a
	}
	if a == b {
		return a
	}
	return intern(&Term{op: "or", w: 0, args: []*Term{a, b}})
}

func mkIte(c, a, b *Term) *Term {
	if c == tTrue {
		return a
	}
	if c == tFalse {
		return b
	}
	if a == b {
		return a
	}
	if a.w == 0 {
		// boolean ite
		return mkOr(mkAnd(c, a), mkAnd(mkNot(c), b))
	}
	return intern(&Term{op: "ite", w: a.w, args: []*Term{c, a, b}})
}

func mkExtract(a *Term, hi, lo int) *Term {
	if lo == 0 && hi == a.w-1 {
		return a
	}
	if a.isConst() {
		return mkConst(hi-lo+1, a.cval>>uint(lo))
	}
	if a.op == "zext" || a.op == "sext" {
		inner := a.args[0]
		if hi < inner.w {
			return mkExtract(inner, hi, lo)
		}
	}
	if a.op == "extract" {
		return mkExtract(a.args[0], hi+a.p2, lo+a.p2)
	}
	return intern(&Term{op: "extract", w: hi - lo + 1, args: []*Term{a}, p1: hi, p2: lo})
}

func mkZext(a *Term, w int) *Term {
	if w == a.w {
		return a
	}
	if w < a.w {
		return mkExtract(a, w-1, 0)
	}
	if a.isConst() {
		return mkConst(w, a.cval)
	}
	return intern(&Term{op: "zext", w: w, args: []*Term{a}, p1: w - a.w})
}

func mkSext(a *Term, w int) *Term {
	if w == a.w {
		return a
	}
	if w < a.w {
		return mkExtract(a, w-1, 0)
	}
	if a.isConst() {
		return mkConst(w, uint64(sx(a.cval, a.w)))
	}
	return intern(&Term{op: "sext", w: w, args: []*Term{a}, p1: w - a.w})
}

func mkConcat(hi, lo *Term) *Term {
	if hi.isConst() && lo.isConst() && hi.w+lo.w <= 64 {
		return mkConst(hi.w+lo.w, hi.cval<<uint(lo.w)|lo.cval)
	}
	return intern(&Term{op: "concat", w: hi.w + lo.w, args: []*Term{hi, lo}})
}

// smt renders the term as SMT-LIB2 text with sharing via solver-level define-fun
// (see solver.define).  Small terms are inlined.
func (t *Term) smtInline(ref func(*Term) string) string {
	switch t.op {
	case "const":
		if t.w%4 == 0 {
			return fmt.Sprintf("#x%0*x", t.w/4, t.cval)
		}
		return fmt.Sprintf("(_ bv%d %d)", t.cval, t.w)
	case "true", "false":
		return t.op
	case "var":
		return t.name
	case "extract":
		return fmt.Sprintf("((_ extract %d %d) %s)", t.p1, t.p2, ref(t.args[0]))
	case "zext":
		return fmt.Sprintf("((_ zero_extend %d) %s)", t.p1, ref(t.args[0]))
	case "sext":
		return fmt.Sprintf("((_ sign_extend %d) %s)", t.p1, ref(t.args[0]))
	}
	var sb strings.Builder
	sb.WriteByte('(')
	sb.WriteString(t.op)
	for _, a := range t.args {
		sb.WriteByte(' ')
		sb.WriteString(ref(a))
	}
	sb.WriteByte(')')
	return sb.String()
}

func (t *Term) String() string {
	var ref func(*Term) string
	depth := 0
	ref = func(x *Term) string {
		depth++
		defer func() { depth-- }()
		if depth > 6 {
			return "…"
		}
		return x.smtInline(ref)
	}
	return ref(t)
}

// vars collects the free variables of t.
func (t *Term) vars(seen map[*Term]bool, out *[]*Term) {
	if seen[t] {
		return
	}
	seen[t] = true
	if t.op == "var" {
		*out = append(*out, t)
	}
	for _, a := range t.args {
		a.vars(seen, out)
	}
}

// eval evaluates t under a model (variable name -> value); bools are 0/1.
func (t *Term) eval(m map[string]uint64, memo map[*Term]uint64) uint64 {
	if v, ok := memo[t]; ok {
		return v
	}
	var r uint64
	b2u := func(b bool) uint64 {
		if b {
			return 1
		}
		return 0
	}
	a := func(i int) uint64 { return t.args[i].eval(m, memo) }
	switch t.op {
	case "const":
		r = t.cval
	case "true":
		r = 1
	case "false":
		r = 0
	case "var":
		r = m[t.name] & func() uint64 {
			if t.w == 0 {
				return 1
			}
			return mask(t.w)
		}()
	case "not":
		r = 1 - a(0)
	case "and":
		r = a(0) & a(1)
	case "or":
		r = a(0) | a(1)
	case "ite":
		if a(0) != 0 {
			r = a(1)
		} else {
			r = a(2)
		}
	case "=":
		r = b2u(a(0) == a(1))
	case "bvult":
		r = b2u(a(0) < a(1))
	case "bvule":
		r = b2u(a(0) <= a(1))
	case "bvslt":
		w := t.args[0].w
		r = b2u(sx(a(0), w) < sx(a(1), w))
	case "bvsle":
		w := t.args[0].w
		r = b2u(sx(a(0), w) <= sx(a(1), w))
	case "bvneg":
		r = -a(0)
	case "bvnot":
		r = ^a(0)
	case "extract":
		r = a(0) >> uint(t.p2)
	case "zext":
		r = a(0)
	case "sext":
		r = uint64(sx(a(0), t.args[0].w))
	case "concat":
		r = a(0)<<uint(t.args[1].w) | a(1)
	default:
		x := mkBV(t.op, mkConst(t.w, a(0)), mkConst(t.w, a(1)))
		if !x.isConst() {
			panic("eval: cannot fold " + t.op)
		}
		r = x.cval
	}
	if t.w > 0 {
		r &= mask(t.w)
	}
	memo[t] = r
	return r
}
