// Derived from golang.org/x/tools/go/ssa/interp (BSD-style license, The Go Authors),
// extended with symbolic scalars, symbolic strings, deterministic maps, modelled
// channels and pointer tokens.

package main

// Values
//
// All interpreter values are "boxed" in the empty interface, value.
// The range of possible dynamic types within value are:
//
// - bool, numbers (all built-in int/float types are distinguished)
// - *SV           --- symbolic scalar (bit-vector or Bool SMT term); the Go type is known statically
// - string        --- concrete string
// - symstr        --- string of concrete length whose bytes may be symbolic
// - *gomap        --- maps (insertion ordered, deterministic)
// - *gochan       --- channels (modelled, scheduler aware)
// - []value       --- slices
// - iface         --- interfaces
// - structure     --- structs
// - array         --- arrays
// - *value        --- pointers
// - ptrTok        --- a uintptr that was obtained from a pointer (opaque address token)
// - rawAddr       --- an unsafe.Pointer/*T obtained from a plain integer (foreign address)
// - *ssa.Function, *ssa.Builtin, *closure --- functions
// - tuple, iter, bad, **deferred

import (
	"bytes"
	"fmt"
	"go/types"
	"unsafe"

	"golang.org/x/tools/go/ssa"
	"golang.org/x/tools/go/types/typeutil"
)

type value interface{}

type tuple []value

type array []value

type iface struct {
	t types.Type // never an "untyped" type
	v value
}

type structure []value

// SV is a symbolic scalar.
type SV struct {
	t *Term
}

// symstr is a string with concrete length; elements are uint8 or *SV(8 bit).
type symstr []value

// ptrTok is the integer form of a pointer: uintptr(unsafe.Pointer(p)).
type ptrTok struct {
	p   *value
	off int // byte offset added by arithmetic (only 0 supported for deref)
}

// rawAddr is a pointer made from an integer (e.g. an address in another process).
type rawAddr struct {
	a value // uintptr or *SV(64)
}

// For map, array, *array, slice, string or channel.
type iter interface {
	next() tuple
}

type closure struct {
	Fn  *ssa.Function
	Env []value
}

type bad struct{}

var hasher = typeutil.MakeHasher()

func hashType(t types.Type) int {
	return int(hasher.Hash(t))
}

// nil-tolerant variant of types.Identical.
func sameType(x, y types.Type) bool {
	if x == nil {
		return y == nil
	}
	return y != nil && types.Identical(x, y)
}

func isSym(x value) bool {
	switch x := x.(type) {
	case *SV:
		return true
	case symstr:
		for _, e := range x {
			if _, ok := e.(*SV); ok {
				return true
			}
		}
	}
	return false
}

// strLen returns the length of a string value.
func strLen(x value) int {
	switch x := x.(type) {
	case string:
		return len(x)
	case symstr:
		return len(x)
	}
	panic(fmt.Sprintf("strLen: %T", x))
}

// strByte returns byte i of a string value (uint8 or *SV).
func strByte(x value, i int) value {
	switch x := x.(type) {
	case string:
		return x[i]
	case symstr:
		return x[i]
	}
	panic(fmt.Sprintf("strByte: %T", x))
}

// normStr collapses a symstr with no symbolic bytes to a Go string.
func normStr(s symstr) value {
	b := make([]byte, len(s))
	for i, e := range s {
		c, ok := e.(uint8)
		if !ok {
			return s
		}
		b[i] = c
	}
	return string(b)
}

func toSymstr(x value) symstr {
	switch x := x.(type) {
	case symstr:
		return x
	case string:
		r := make(symstr, len(x))
		for i := 0; i < len(x); i++ {
			r[i] = x[i]
		}
		return r
	}
	panic(fmt.Sprintf("toSymstr: %T", x))
}

// equalsT returns a Term (Bool) for x == y under type t; concrete results are tTrue/tFalse.
func (i *interpreter) equalsT(t types.Type, x, y value) *Term {
	switch x := x.(type) {
	case *SV:
		return mkCmp("=", x.t, i.toTerm(y, x.t.w))
	case symstr:
		return strEqT(x, y)
	case string:
		if ys, ok := y.(symstr); ok {
			return strEqT(ys, x)
		}
		return mkBool(x == y.(string))
	case structure:
		y := y.(structure)
		tStruct := t.Underlying().(*types.Struct)
		r := tTrue
		for k, n := 0, tStruct.NumFields(); k < n; k++ {
			if f := tStruct.Field(k); f.Name() != "_" {
				r = mkAnd(r, i.equalsT(f.Type(), x[k], y[k]))
			}
		}
		return r
	case array:
		y := y.(array)
		tElt := t.Underlying().(*types.Array).Elem()
		r := tTrue
		for k := range x {
			r = mkAnd(r, i.equalsT(tElt, x[k], y[k]))
		}
		return r
	case iface:
		y := y.(iface)
		if !sameType(x.t, y.t) {
			return tFalse
		}
		if x.t == nil {
			return tTrue
		}
		return i.equalsT(x.t, x.v, y.v)
	case *value:
		switch y := y.(type) {
		case *value:
			return mkBool(x == y)
		case unsafe.Pointer:
			return mkBool(unsafe.Pointer(x) == y)
		case rawAddr:
			return tFalse
		}
	case rawAddr:
		if y, ok := y.(rawAddr); ok {
			return i.equalsT(types.Typ[types.Uintptr], x.a, y.a)
		}
		return tFalse
	case *gochan:
		return mkBool(x == y.(*gochan))
	case ptrTok:
		switch y := y.(type) {
		case ptrTok:
			return mkBool(x == y)
		case uintptr:
			return mkBool(x.p == nil && y == 0)
		}
		return tFalse
	case unsafe.Pointer:
		if yp, ok := y.(*value); ok {
			return mkBool(x == unsafe.Pointer(yp))
		}
		return mkBool(x == y.(unsafe.Pointer))
	}
	if ysv, ok := y.(*SV); ok {
		return mkCmp("=", i.toTerm(x, ysv.t.w), ysv.t)
	}
	if yt, ok := y.(ptrTok); ok {
		if xu, ok := x.(uintptr); ok {
			return mkBool(yt.p == nil && xu == 0)
		}
	}
	// concrete scalars
	return mkBool(x == y)
}

func strEqT(x symstr, y value) *Term {
	if len(x) != strLen(y) {
		return tFalse
	}
	r := tTrue
	for k := range x {
		r = mkAnd(r, mkCmp("=", byteTerm(x[k]), byteTerm(strByte(y, k))))
	}
	return r
}

func byteTerm(v value) *Term {
	switch v := v.(type) {
	case uint8:
		return mkConst(8, uint64(v))
	case *SV:
		return v.t
	}
	panic(fmt.Sprintf("byteTerm: %T", v))
}

// load returns the value of type T in *addr.
func load(T types.Type, addr *value) value {
	switch T := T.Underlying().(type) {
	case *types.Struct:
		v := (*addr).(structure)
		a := make(structure, len(v))
		for i := range a {
			a[i] = load(T.Field(i).Type(), &v[i])
		}
		return a
	case *types.Array:
		v := (*addr).(array)
		a := make(array, len(v))
		for i := range a {
			a[i] = load(T.Elem(), &v[i])
		}
		return a
	default:
		return *addr
	}
}

// store stores value v of type T into *addr.
func store(T types.Type, addr *value, v value) {
	switch T := T.Underlying().(type) {
	case *types.Struct:
		lhs := (*addr).(structure)
		rhs := v.(structure)
		for i := range lhs {
			store(T.Field(i).Type(), &lhs[i], rhs[i])
		}
	case *types.Array:
		lhs := (*addr).(array)
		rhs := v.(array)
		for i := range lhs {
			store(T.Elem(), &lhs[i], rhs[i])
		}
	default:
		*addr = v
	}
}

// copyVal makes an unaliased copy of an aggregate value (structs/arrays by value).
func copyVal(v value) value {
	switch v := v.(type) {
	case structure:
		a := make(structure, len(v))
		for i := range v {
			a[i] = copyVal(v[i])
		}
		return a
	case array:
		a := make(array, len(v))
		for i := range v {
			a[i] = copyVal(v[i])
		}
		return a
	}
	return v
}

func writeValue(buf *bytes.Buffer, v value) {
	switch v := v.(type) {
	case nil, bool, int, int8, int16, int32, int64, uint, uint8, uint16, uint32, uint64, uintptr, float32, float64, complex64, complex128, string:
		fmt.Fprintf(buf, "%v", v)
	case *SV:
		fmt.Fprintf(buf, "<sym %s>", v.t)
	case symstr:
		buf.WriteString("\"")
		for _, e := range v {
			if c, ok := e.(uint8); ok {
				if c >= 32 && c < 127 {
					buf.WriteByte(c)
				} else {
					fmt.Fprintf(buf, "\\x%02x", c)
				}
			} else {
				buf.WriteString("?")
			}
		}
		buf.WriteString("\"")
	case *gomap:
		buf.WriteString("map[")
		if v != nil {
			for k := range v.keys {
				if v.dead[k] {
					continue
				}
				buf.WriteString(" ")
				writeValue(buf, v.keys[k])
				buf.WriteString(":")
				writeValue(buf, v.vals[k])
			}
		}
		buf.WriteString("]")
	case *gochan:
		fmt.Fprintf(buf, "chan@%p", v)
	case *value:
		if v == nil {
			buf.WriteString("<nil>")
		} else {
			fmt.Fprintf(buf, "%p", v)
		}
	case ptrTok:
		fmt.Fprintf(buf, "ptrtok(%p+%d)", v.p, v.off)
	case rawAddr:
		buf.WriteString("rawaddr(")
		writeValue(buf, v.a)
		buf.WriteString(")")
	case iface:
		fmt.Fprintf(buf, "(%s, ", v.t)
		writeValue(buf, v.v)
		buf.WriteString(")")
	case structure:
		buf.WriteString("{")
		for i, e := range v {
			if i > 0 {
				buf.WriteString(" ")
			}
			writeValue(buf, e)
		}
		buf.WriteString("}")
	case array:
		buf.WriteString("[")
		for i, e := range v {
			if i > 0 {
				buf.WriteString(" ")
			}
			writeValue(buf, e)
		}
		buf.WriteString("]")
	case []value:
		buf.WriteString("[")
		for i, e := range v {
			if i > 0 {
				buf.WriteString(" ")
			}
			writeValue(buf, e)
		}
		buf.WriteString("]")
	case *ssa.Function, *ssa.Builtin, *closure:
		fmt.Fprintf(buf, "%p", v)
	case tuple:
		buf.WriteString("(")
		for i, e := range v {
			if i > 0 {
				buf.WriteString(", ")
			}
			writeValue(buf, e)
		}
		buf.WriteString(")")
	default:
		fmt.Fprintf(buf, "<%T>", v)
	}
}

func toString(v value) string {
	var b bytes.Buffer
	writeValue(&b, v)
	return b.String()
}

// ------------------------------------------------------------------------
// Maps: insertion-ordered, deterministic.  Keys that are concrete scalars or
// strings are indexed natively; everything else is searched linearly with the
// interpreter's equality (which may fork on symbolic keys).

type gomap struct {
	keyType types.Type
	keys    []value
	vals    []value
	dead    []bool
	index   map[interface{}]int // concrete hashable keys only
	n       int
}

func makeMap(kt types.Type) *gomap {
	return &gomap{keyType: kt, index: map[interface{}]int{}}
}

func nativeKey(k value) (interface{}, bool) {
	switch k := k.(type) {
	case bool, int, int8, int16, int32, int64, uint, uint8, uint16, uint32, uint64, uintptr, float32, float64, string, *value, *gochan:
		return k, true
	case iface:
		if k.t == nil {
			return "nil-iface", true
		}
		if nk, ok := nativeKey(k.v); ok {
			return [2]interface{}{k.t.String(), nk}, true
		}
	}
	return nil, false
}

// find returns the slot of key k or -1.  It may fork the path on symbolic equality.
func (m *gomap) find(i *interpreter, k value) int {
	if m == nil {
		return -1
	}
	if nk, ok := nativeKey(k); ok {
		if s, ok := m.index[nk]; ok {
			return s
		}
		// there may still be symbolic keys stored in the map
		for s := range m.keys {
			if m.dead[s] {
				continue
			}
			if _, isNative := nativeKey(m.keys[s]); isNative {
				continue
			}
			if i.decide(i.equalsT(m.keyType, m.keys[s], k)) {
				return s
			}
		}
		return -1
	}
	// symbolic integer key over (mostly) concrete keys: one membership decision plus a
	// solver-driven enumeration of the feasible keys instead of one decision per entry
	if sv, ok := k.(*SV); ok && sv.t.w > 0 && len(m.index) > 8 {
		member := tFalse
		allNative := true
		for s := range m.keys {
			if m.dead[s] {
				continue
			}
			if _, n := nativeKey(m.keys[s]); !n {
				allNative = false
				break
			}
			member = mkOr(member, i.equalsT(m.keyType, m.keys[s], k))
		}
		if allNative {
			if !i.decide(member) {
				return -1
			}
			save := i.ex.concCap
			i.ex.concCap = len(m.keys) + 1
			v := i.concretize(sv.t, "map key")
			i.ex.concCap = save
			kb, _ := basicKind(m.keyType)
			if s, ok := m.index[mkInt(kb, v)]; ok {
				return s
			}
			panic(engineError{"map key enumeration produced a non-member"})
		}
	}
	for s := range m.keys {
		if m.dead[s] {
			continue
		}
		if i.decide(i.equalsT(m.keyType, m.keys[s], k)) {
			return s
		}
	}
	return -1
}

func (m *gomap) lookup(i *interpreter, k value) (value, bool) {
	s := m.find(i, k)
	if s < 0 {
		return nil, false
	}
	return m.vals[s], true
}

func (m *gomap) insert(i *interpreter, k, v value) {
	s := m.find(i, k)
	if s >= 0 {
		m.vals[s] = v
		return
	}
	m.keys = append(m.keys, k)
	m.vals = append(m.vals, v)
	m.dead = append(m.dead, false)
	if nk, ok := nativeKey(k); ok {
		m.index[nk] = len(m.keys) - 1
	}
	m.n++
}

func (m *gomap) delete(i *interpreter, k value) {
	s := m.find(i, k)
	if s < 0 {
		return
	}
	m.dead[s] = true
	if nk, ok := nativeKey(k); ok {
		delete(m.index, nk)
	}
	m.n--
}

func (m *gomap) len() int {
	if m == nil {
		return 0
	}
	return m.n
}

type mapIter struct {
	m   *gomap
	pos int
}

func (it *mapIter) next() tuple {
	if it.m != nil {
		for it.pos < len(it.m.keys) {
			p := it.pos
			it.pos++
			if !it.m.dead[p] {
				return tuple{true, it.m.keys[p], copyVal(it.m.vals[p])}
			}
		}
	}
	return tuple{false, nil, nil}
}

// string iteration (runes); symbolic bytes are handled in rangeIter.
type stringIter struct {
	s string
	i int
}

func (it *stringIter) next() tuple {
	if it.i >= len(it.s) {
		return tuple{false, nil, nil}
	}
	var r rune
	n := 0
	for k, c := range it.s[it.i:] {
		_ = k
		r = c
		n = len(string(c))
		if c == 0xFFFD {
			// invalid encoding consumes 1 byte, except for a genuine U+FFFD
			if len(it.s[it.i:]) >= 3 && it.s[it.i:it.i+3] == "\xef\xbf\xbd" {
				n = 3
			} else {
				n = 1
			}
		}
		break
	}
	idx := it.i
	it.i += n
	return tuple{true, idx, r}
}
