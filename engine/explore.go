package main

// Path exploration: depth-first, stateless (re-execution with a decision prefix).

import (
	"fmt"
	"go/token"
	"go/types"
	"os"
	"sort"
	"strings"
	"time"

	"golang.org/x/tools/go/ssa"
)

type decision struct {
	Kind    string   `json:"k"` // "br" branch, "val" concretisation, "ch" choice
	Val     uint64   `json:"v"`
	Excl    []uint64 `json:"x,omitempty"`
	Pending bool     `json:"p,omitempty"`
	N       int      `json:"n,omitempty"`
	What    string   `json:"w,omitempty"`
}

type violation struct {
	Harness    string            `json:"harness"`
	Kind       string            `json:"kind"` // assert, panic, deadlock, unreached
	Msg        string            `json:"msg"`
	Pos        string            `json:"pos"`
	Assignment map[string]uint64 `json:"assignment"`
	VarOrder   []string          `json:"var_order"`
	Choices    []string          `json:"choices"`
	Events     []string          `json:"events"`
	Decisions  int               `json:"decisions"`
	Confirmed  bool              `json:"model_confirmed"` // solver produced a model (vs concrete failure)
	Extra      map[string]string `json:"extra,omitempty"`
	ChDecs     []int             `json:"ch_decisions"`
}

type pathState struct {
	prefix     []decision
	taken      []decision
	pc         []*Term
	pcSet      map[*Term]bool
	vars       []*Term
	varSeen    map[*Term]bool
	varCount   map[string]int
	reach      map[string]bool
	events     []string
	choices    []string
	unknowns   int
	asserts    int
	discharged int
	violations []violation
	extra      map[string]string
}

type explorer struct {
	solver        *Solver
	harness       string
	work          [][]decision
	paths         int
	completed     int
	aborted       int
	errored       int
	maxPaths      int
	concCap       int
	reachAll      map[string]int
	violations    []violation
	errors        []string
	asserts       int
	discharged    int
	unknownAssert int
	unknownBranch int
	funcs         map[*ssa.Function]bool
	stubs         map[string]int
	samples       []map[string]interface{}
	maxDecisions  int
	totalSteps    int64
	start         time.Time
	deadline      time.Time
	timedOut      bool
	distinctSig   map[string]bool
	outputs       map[string]string
	abortReasons  map[string]int
	violCount     map[string]int
	fixed         map[string]uint64 // replay mode: every input variable is fixed
	fixCh         []int
	fixChAt       int
}

func (i *interpreter) addPC(t *Term) {
	if t == tTrue {
		return
	}
	if i.ps.pcSet[t] {
		return
	}
	i.ps.pcSet[t] = true
	i.ps.pc = append(i.ps.pc, t)
	// conjunctions contribute their conjuncts as known literals too
	if t.op == "and" {
		for _, a := range t.args {
			if a.op != "and" {
				i.ps.pcSet[a] = true
			}
		}
	}
}

// decide picks the side of a symbolic condition for this path.
func (i *interpreter) decide(cond *Term) bool {
	if cond == tTrue {
		return true
	}
	if cond == tFalse {
		return false
	}
	ps := i.ps
	// syntactic shortcut: the condition (or its negation) is literally on the path already
	if ps.pcSet[cond] {
		return true
	}
	if ps.pcSet[mkNot(cond)] {
		return false
	}
	idx := len(ps.taken)
	if idx < len(ps.prefix) {
		d := ps.prefix[idx]
		if d.Kind != "br" {
			panic(engineError{fmt.Sprintf("replay divergence at decision %d: want br, have %s", idx, d.Kind)})
		}
		ps.taken = append(ps.taken, d)
		if d.Val == 1 {
			i.addPC(cond)
			return true
		}
		i.addPC(mkNot(cond))
		return false
	}
	ex := i.ex
	nc := mkNot(cond)
	rT := ex.solver.check(append(ps.pc[:len(ps.pc):len(ps.pc)], cond))
	var rF satResult
	if rT == resUnsat {
		rF = resSat // pc is satisfiable by invariant
	} else {
		rF = ex.solver.check(append(ps.pc[:len(ps.pc):len(ps.pc)], nc))
	}
	if rT == resUnknown || rF == resUnknown {
		ps.unknowns++
		ex.unknownBranch++
	}
	okT, okF := rT != resUnsat, rF != resUnsat
	switch {
	case okT && okF:
		alt := append(append([]decision{}, ps.taken...), decision{Kind: "br", Val: 0})
		ex.work = append(ex.work, alt)
		ps.taken = append(ps.taken, decision{Kind: "br", Val: 1})
		i.addPC(cond)
		return true
	case okT:
		ps.taken = append(ps.taken, decision{Kind: "br", Val: 1})
		i.addPC(cond)
		return true
	case okF:
		ps.taken = append(ps.taken, decision{Kind: "br", Val: 0})
		i.addPC(nc)
		return false
	}
	panic(abortPath{"infeasible"})
}

// concretize picks a feasible concrete value for t on this path; the other
// feasible values are explored on other paths (up to concCap values).
func (i *interpreter) concretize(t *Term, what string) uint64 {
	if t.isConst() {
		return t.cval
	}
	ps := i.ps
	ex := i.ex
	idx := len(ps.taken)
	var excl []uint64
	if idx < len(ps.prefix) {
		d := ps.prefix[idx]
		if d.Kind != "val" {
			panic(engineError{fmt.Sprintf("replay divergence at decision %d: want val, have %s", idx, d.Kind)})
		}
		if !d.Pending {
			ps.taken = append(ps.taken, d)
			i.addPC(mkCmp("=", t, mkConst(t.w, d.Val)))
			return d.Val
		}
		excl = d.Excl
	}
	lits := append([]*Term{}, ps.pc...)
	for _, e := range excl {
		lits = append(lits, mkNot(mkCmp("=", t, mkConst(t.w, e))))
	}
	var vs []*Term
	t.vars(map[*Term]bool{}, &vs)
	m, ok := ex.solver.model(lits, vs)
	if !ok {
		// unsat (exhausted) or unknown
		r := ex.solver.check(lits)
		if r == resUnknown {
			panic(engineError{"solver unknown while concretising " + what})
		}
		panic(abortPath{"exhausted"})
	}
	v := t.eval(m, map[*Term]uint64{})
	if len(excl)+1 > ex.concCap {
		panic(engineError{fmt.Sprintf("concretisation cap (%d) exceeded for %s", ex.concCap, what)})
	}
	nexcl := append(append([]uint64{}, excl...), v)
	// only schedule the alternative if another value is feasible at all
	if ex.solver.check(append(lits, mkNot(mkCmp("=", t, mkConst(t.w, v))))) != resUnsat {
		alt := append(append([]decision{}, ps.taken...), decision{Kind: "val", Pending: true, Excl: nexcl, What: what})
		ex.work = append(ex.work, alt)
	}
	ps.taken = append(ps.taken, decision{Kind: "val", Val: v, What: what})
	i.addPC(mkCmp("=", t, mkConst(t.w, v)))
	return v
}

// choose makes an n-way nondeterministic choice (no solver variable).
func (i *interpreter) choose(n int, what string) int {
	if n <= 1 {
		return 0
	}
	ps := i.ps
	if i.ex.fixed != nil {
		k := 0
		if i.ex.fixChAt < len(i.ex.fixCh) {
			k = i.ex.fixCh[i.ex.fixChAt]
		}
		i.ex.fixChAt++
		if k >= n {
			k = 0
		}
		ps.taken = append(ps.taken, decision{Kind: "ch", Val: uint64(k), N: n, What: what})
		return k
	}
	idx := len(ps.taken)
	if idx < len(ps.prefix) {
		d := ps.prefix[idx]
		if d.Kind != "ch" {
			panic(engineError{fmt.Sprintf("replay divergence at decision %d: want ch, have %s", idx, d.Kind)})
		}
		ps.taken = append(ps.taken, d)
		return int(d.Val)
	}
	for k := n - 1; k >= 1; k-- {
		alt := append(append([]decision{}, ps.taken...), decision{Kind: "ch", Val: uint64(k), N: n, What: what})
		i.ex.work = append(i.ex.work, alt)
	}
	ps.taken = append(ps.taken, decision{Kind: "ch", Val: 0, N: n, What: what})
	return 0
}

func sanitize(name string) string {
	var sb strings.Builder
	for _, c := range name {
		switch {
		case c >= 'a' && c <= 'z', c >= 'A' && c <= 'Z', c >= '0' && c <= '9', c == '_', c == '.':
			sb.WriteRune(c)
		default:
			sb.WriteByte('_')
		}
	}
	if sb.Len() == 0 {
		return "v"
	}
	return sb.String()
}

// freshVar creates (or re-creates on replay) the next input variable called name.
func (i *interpreter) freshVar(name string, w int) *Term {
	ps := i.ps
	base := sanitize(name)
	ps.varCount[base]++
	n := ps.varCount[base]
	full := base
	if n > 1 {
		full = fmt.Sprintf("%s.%d", base, n)
	}
	full = fmt.Sprintf("%s_w%d", full, w)
	if i.ex.fixed != nil {
		if w == 0 {
			return mkBool(i.ex.fixed[full] != 0)
		}
		return mkConst(w, i.ex.fixed[full])
	}
	v := mkVar(full, w)
	if !ps.varSeen[v] {
		ps.varSeen[v] = true
		ps.vars = append(ps.vars, v)
	}
	return v
}

func (i *interpreter) currentModel(extra ...*Term) (map[string]uint64, bool) {
	lits := append(append([]*Term{}, i.ps.pc...), extra...)
	return i.ex.solver.model(lits, i.ps.vars)
}

func (i *interpreter) recordViolation(kind, msg string, pos token.Pos, extra ...*Term) {
	ps := i.ps
	v := violation{Harness: i.ex.harness, Kind: kind, Msg: msg, Pos: shortPos(i.pos(pos)),
		Choices: append([]string{}, ps.choices...), Events: append([]string{}, ps.events...), Decisions: len(ps.taken)}
	if m, ok := i.currentModel(extra...); ok {
		v.Assignment = m
		v.Confirmed = true
	}
	for _, x := range ps.vars {
		v.VarOrder = append(v.VarOrder, x.name)
	}
	for _, d := range ps.taken {
		if d.Kind == "ch" {
			v.ChDecs = append(v.ChDecs, int(d.Val))
		}
	}
	if len(ps.extra) > 0 {
		v.Extra = map[string]string{}
		for k, x := range ps.extra {
			v.Extra[k] = x
		}
	}
	ps.violations = append(ps.violations, v)
}

// assert discharges cond on the current path.
func (i *interpreter) assert(c value, msg string, pos token.Pos) {
	ps := i.ps
	ps.asserts++
	switch c := c.(type) {
	case bool:
		if c {
			ps.discharged++
			return
		}
		i.recordViolation("assert", msg, pos)
		panic(abortPath{"assertion failed"})
	case *SV:
		nc := mkNot(c.t)
		r := i.ex.solver.check(append(ps.pc[:len(ps.pc):len(ps.pc)], nc))
		switch r {
		case resUnsat:
			ps.discharged++
			return
		case resUnknown:
			i.ex.unknownAssert++
			ps.unknowns++
			ps.events = append(ps.events, "INCONCLUSIVE assertion: "+msg)
			return
		}
		i.recordViolation("assert", msg, pos, nc)
		// continue under the assumption that it held, if possible
		if i.ex.solver.check(append(ps.pc[:len(ps.pc):len(ps.pc)], c.t)) != resSat {
			panic(abortPath{"assertion failed on all values"})
		}
		i.addPC(c.t)
	default:
		panic(fmt.Sprintf("assert: %T", c))
	}
}

func (i *interpreter) assume(c value) {
	switch c := c.(type) {
	case bool:
		if !c {
			panic(abortPath{"assume false"})
		}
	case *SV:
		r := i.ex.solver.check(append(i.ps.pc[:len(i.ps.pc):len(i.ps.pc)], c.t))
		if r == resUnsat {
			panic(abortPath{"assume unsat"})
		}
		if r == resUnknown {
			i.ps.unknowns++
			i.ex.unknownBranch++
		}
		i.addPC(c.t)
	}
}

// runOne executes the harness once under the given decision prefix.
func (ex *explorer) runOne(prog *ssa.Program, fn *ssa.Function, prefix []decision, opts *runOpts) {
	ps := &pathState{prefix: prefix, pcSet: map[*Term]bool{}, varCount: map[string]int{}, varSeen: map[*Term]bool{}, reach: map[string]bool{}, extra: map[string]string{}}
	i := &interpreter{
		prog:       prog,
		globals:    map[*ssa.Global]*value{},
		pkgInit:    map[*ssa.Package]bool{},
		sizes:      opts.sizes,
		ex:         ex,
		ps:         ps,
		intercepts: map[string]value{},
		maxSteps:   opts.maxSteps,
		tracing:    opts.tracing,
		side:       map[interface{}]interface{}{},
		origin:     map[*value][]value{},
	}
	if rt := prog.ImportedPackage("runtime"); rt != nil {
		if m := rt.Type("errorString"); m != nil {
			i.errString = m.Object().Type()
		}
	}
	i.sched = newScheduler(i, opts.maxPreempt)
	outcome := "ok"
	var detail string
	func() {
		defer func() {
			p := recover()
			i.sched.killAll()
			if p == nil {
				return
			}
			switch p := p.(type) {
			case abortPath:
				outcome = "abort"
				detail = p.reason
			case engineError:
				outcome = "error"
				detail = p.msg
			case exitPanic:
				outcome = "ok"
				detail = fmt.Sprintf("exit(%d)", p.code)
			case targetPanic:
				outcome = "panic"
				detail = "panic: " + i.describePanic(p.v)
			case runtimePanic:
				outcome = "panic"
				detail = "panic: runtime error: " + p.msg
			default:
				outcome = "error"
				detail = fmt.Sprintf("interpreter crash: %v", p)
				if opts.tracing || os.Getenv("SYMGO_DEBUG") != "" {
					panic(p)
				}
			}
		}()
		main := i.sched.threads[0]
		call(i, &frame{i: i, th: main}, token.NoPos, fn, nil)
	}()
	ex.paths++
	ex.totalSteps += i.steps
	if len(ps.taken) > ex.maxDecisions {
		ex.maxDecisions = len(ps.taken)
	}
	switch outcome {
	case "ok":
		ex.completed++
	case "abort":
		if detail == "assertion failed" || detail == "assertion failed on all values" {
			ex.completed++
		} else if detail == "deadlock" {
			ex.completed++
			i.recordViolation("deadlock", "all threads are blocked: "+i.sched.describe(), token.NoPos)
		} else {
			ex.aborted++
			if ex.abortReasons == nil {
				ex.abortReasons = map[string]int{}
			}
			ex.abortReasons[detail]++
		}
	case "panic":
		ex.completed++
		i.recordViolation("panic", detail, token.NoPos)
	case "error":
		ex.errored++
		if len(ex.errors) < 20 {
			ex.errors = append(ex.errors, detail)
		}
	}
	for l := range ps.reach {
		ex.reachAll[l]++
	}
	ex.asserts += ps.asserts
	ex.discharged += ps.discharged
	for _, v := range ps.violations {
		if ex.violCount == nil {
			ex.violCount = map[string]int{}
		}
		key := v.Kind + "|" + v.Msg
		if v.Kind == "deadlock" {
			key = v.Kind
		}
		ex.violCount[key]++
		if ex.violCount[key] <= 4 && len(ex.violations) < 60 {
			ex.violations = append(ex.violations, v)
		}
	}
	if outcome == "ok" && len(ex.samples) < 5 && len(ps.vars) > 0 {
		if m, ok := i.currentModel(); ok {
			s := map[string]interface{}{"assignment": m, "choices": ps.choices, "decisions": len(ps.taken), "reach": keys(ps.reach)}
			ex.samples = append(ex.samples, s)
		}
	}
	if outcome == "ok" || outcome == "panic" {
		sig := strings.Join(keys(ps.reach), ",") + "|" + fmt.Sprint(len(ps.taken))
		ex.distinctSig[sig] = true
	}
	if opts.verbose {
		fmt.Fprintf(os.Stderr, "path %d: %s %s decisions=%d steps=%d\n", ex.paths, outcome, detail, len(ps.taken), i.steps)
	}
}

func keys(m map[string]bool) []string {
	var r []string
	for k := range m {
		r = append(r, k)
	}
	sort.Strings(r)
	return r
}

type runOpts struct {
	sizes      types.Sizes
	maxSteps   int64
	maxPreempt int
	tracing    bool
	verbose    bool
}

func (i *interpreter) describePanic(v value) string {
	if itf, ok := v.(iface); ok {
		if s, ok := itf.v.(string); ok {
			return s
		}
		if itf.t != nil {
			if s, ok := i.tryErrorString(itf); ok {
				return s
			}
		}
	}
	return toString(v)
}
