package main

// Interpreter threads (goroutines and model processes), scheduled one at a time.
// Each interpreted goroutine is a real goroutine that only runs while it holds the
// baton; switches happen only at visible operations, and the pick among enabled
// threads is an exploration decision under a preemption bound.

import (
	"fmt"
	"go/token"
	"go/types"
	"sync"

	"golang.org/x/tools/go/ssa"
)

type exitPanic struct {
	code int
}

type thread struct {
	id      int
	name    string
	wake    chan struct{}
	done    bool
	started bool
	blocked func() bool // nil = runnable; else enabledness predicate
	why     string
	pid     int // model process id (0 = host)
	exited  *exitPanic
	w       *waiter
	gone    bool // the backing goroutine has returned
}

type scheduler struct {
	i           *interpreter
	threads     []*thread
	cur         *thread
	preemptions int
	maxPreempt  int
	aborting    bool
	fatal       interface{}
	wg          sync.WaitGroup
	switches    int
}

func newScheduler(i *interpreter, maxPreempt int) *scheduler {
	s := &scheduler{i: i, maxPreempt: maxPreempt}
	main := &thread{id: 0, name: "main", wake: make(chan struct{}, 1), started: true}
	s.threads = []*thread{main}
	s.cur = main
	return s
}

func (s *scheduler) enabledThreads(except *thread) []*thread {
	var r []*thread
	for _, t := range s.threads {
		if t.done || t == except {
			continue
		}
		if t.blocked == nil || t.blocked() {
			r = append(r, t)
		}
	}
	return r
}

// yield is a scheduling point of thread th.  If th.blocked is set, th cannot
// continue until its predicate holds.
func (s *scheduler) yield(th *thread, why string) {
	if th == nil {
		return
	}
	if len(s.threads) == 1 && th.blocked == nil {
		return
	}
	th.why = why
	for {
		enabled := s.enabledThreads(nil)
		if len(enabled) == 0 {
			s.i.ps.events = append(s.i.ps.events, "DEADLOCK: "+s.describe())
			panic(abortPath{"deadlock"})
		}
		next := s.pick(th, enabled)
		if next == th {
			th.blocked = nil
			return
		}
		s.switches++
		s.cur = next
		next.wake <- struct{}{}
		<-th.wake
		if s.aborting {
			if th.id == 0 && s.fatal != nil {
				f := s.fatal
				s.fatal = nil
				panic(f)
			}
			panic(abortPath{"path ended"})
		}
		if th.blocked == nil || th.blocked() {
			th.blocked = nil
			return
		}
	}
}

// pick chooses the next thread.  Delay-bounded scheduling: the default scheduler is
// deterministic (keep running the current thread while it is enabled, otherwise the
// enabled thread with the lowest id); every deviation from it costs one unit of the
// budget (maxPreempt).  All schedules within the budget are explored.
func (s *scheduler) pick(th *thread, enabled []*thread) *thread {
	var def *thread
	for _, t := range enabled {
		if t == th {
			def = th
		}
	}
	if def == nil {
		def = enabled[0]
	}
	opts := []*thread{def}
	if s.preemptions < s.maxPreempt {
		for _, t := range enabled {
			if t != def {
				opts = append(opts, t)
			}
		}
	}
	k := 0
	if len(opts) > 1 {
		k = s.i.choose(len(opts), "sched")
		if k != 0 {
			s.i.ps.choices = append(s.i.ps.choices, fmt.Sprintf("sched@%s:%s->%s", th.name, th.why, opts[k].name))
		}
	}
	if k != 0 {
		s.preemptions++
	}
	return opts[k]
}

func (s *scheduler) describe() string {
	r := ""
	for _, t := range s.threads {
		st := "runnable"
		if t.done {
			st = "done"
		} else if t.blocked != nil {
			st = "blocked(" + t.why + ")"
		}
		r += fmt.Sprintf("[%s:%s]", t.name, st)
	}
	return r
}

// spawn starts a new interpreter thread running fn(args).
func (i *interpreter) spawn(fr *frame, pos token.Pos, fn value, args []value) *thread {
	s := i.sched
	parent := fr.th
	th := &thread{id: len(s.threads), wake: make(chan struct{}, 1)}
	th.name = fmt.Sprintf("g%d", th.id)
	if parent != nil {
		th.pid = parent.pid
	}
	s.threads = append(s.threads, th)
	s.wg.Add(1)
	go s.threadMain(th, func(top *frame) { call(i, top, pos, fn, args) })
	s.yield(parent, "go")
	return th
}

// spawnFrame starts a thread that continues executing a cloned frame (fork).
func (i *interpreter) spawnFrame(parent *thread, child *frame, name string, pid int) *thread {
	s := i.sched
	th := &thread{id: len(s.threads), wake: make(chan struct{}, 1), name: name, pid: pid}
	s.threads = append(s.threads, th)
	child.th = th
	s.wg.Add(1)
	go s.threadMain(th, func(top *frame) {
		child.caller = nil
		for child.block != nil {
			runFrame(child)
		}
		// the forked child returned from the function that forked: record it
		i.ps.events = append(i.ps.events, "forked child returned from "+child.fn.String())
		i.ps.extra["child_returned"] = child.fn.String()
	})
	return th
}

func (s *scheduler) threadMain(th *thread, body func(top *frame)) {
	defer s.wg.Done()
	defer func() { th.gone = true }()
	<-th.wake
	if s.aborting {
		th.done = true
		return
	}
	th.started = true
	var fatal interface{}
	func() {
		defer func() {
			if p := recover(); p != nil {
				switch p := p.(type) {
				case exitPanic:
					th.exited = &p
				case abortPath:
					if p.reason != "path ended" {
						fatal = p
					}
				default:
					fatal = p
				}
			}
		}()
		body(&frame{i: s.i, th: th})
	}()
	th.done = true
	if s.aborting {
		return
	}
	if fatal != nil {
		// propagate to the main thread, which reports it
		s.fatal = fatal
		s.aborting = true
		main := s.threads[0]
		main.wake <- struct{}{}
		return
	}
	// hand the baton on
	func() {
		defer func() {
			if p := recover(); p != nil {
				s.fatal = p
				s.aborting = true
				s.threads[0].wake <- struct{}{}
			}
		}()
		enabled := s.enabledThreads(nil)
		if len(enabled) == 0 {
			s.i.ps.events = append(s.i.ps.events, "DEADLOCK: "+s.describe())
			panic(abortPath{"deadlock"})
		}
		next := s.pick(th, enabled)
		s.cur = next
		next.wake <- struct{}{}
	}()
}

// mainWoken is called by thread 0 after being woken: propagates fatal errors.
func (s *scheduler) checkFatal() {
	if s.fatal != nil {
		f := s.fatal
		s.fatal = nil
		panic(f)
	}
}

// killAll ends every parked thread at the end of a path.
func (s *scheduler) killAll() {
	s.aborting = true
	for _, t := range s.threads[1:] {
		if !t.gone {
			select {
			case t.wake <- struct{}{}:
			default:
			}
		}
	}
	s.wg.Wait()
}

// ---------------------------------------------------------------------------
// Channels

type gochan struct {
	buf    []value
	cap    int
	closed bool
	recvq  []*waiter
	sendq  []*waiter
	elem   types.Type
}

type selCase struct {
	ch   *gochan
	send bool
	val  value
}

type waiter struct {
	th      *thread
	cases   []selCase
	fired   int
	recvVal value
	recvOk  bool
	panicOn bool // send on closed channel
}

func (i *interpreter) makeChan(size int) *gochan {
	return &gochan{cap: size}
}

func removeWaiter(q []*waiter, w *waiter) []*waiter {
	for k, x := range q {
		if x == w {
			return append(q[:k:k], q[k+1:]...)
		}
	}
	return q
}

func (w *waiter) unregister() {
	for _, c := range w.cases {
		if c.ch == nil {
			continue
		}
		if c.send {
			c.ch.sendq = removeWaiter(c.ch.sendq, w)
		} else {
			c.ch.recvq = removeWaiter(c.ch.recvq, w)
		}
	}
}

func caseIndex(w *waiter, ch *gochan, send bool) int {
	for k, c := range w.cases {
		if c.ch == ch && c.send == send {
			return k
		}
	}
	return -1
}

func (c selCase) ready() bool {
	ch := c.ch
	if ch == nil {
		return false
	}
	if c.send {
		return ch.closed || len(ch.buf) < ch.cap || len(ch.recvq) > 0
	}
	return len(ch.buf) > 0 || len(ch.sendq) > 0 || ch.closed
}

// execCase performs a ready case; returns received value.
func (i *interpreter) execCase(c selCase) (value, bool) {
	ch := c.ch
	if c.send {
		if ch.closed {
			panic(targetPanic{iface{types.Typ[types.String], "send on closed channel"}})
		}
		if len(ch.recvq) > 0 {
			w := ch.recvq[0]
			w.fired = caseIndex(w, ch, false)
			w.recvVal = c.val
			w.recvOk = true
			w.unregister()
			return nil, false
		}
		ch.buf = append(ch.buf, c.val)
		return nil, false
	}
	if len(ch.buf) > 0 {
		v := ch.buf[0]
		ch.buf = ch.buf[1:]
		if len(ch.sendq) > 0 {
			w := ch.sendq[0]
			k := caseIndex(w, ch, true)
			ch.buf = append(ch.buf, w.cases[k].val)
			w.fired = k
			w.unregister()
		}
		return v, true
	}
	if len(ch.sendq) > 0 {
		w := ch.sendq[0]
		k := caseIndex(w, ch, true)
		v := w.cases[k].val
		w.fired = k
		w.unregister()
		return v, true
	}
	// closed
	return nil, false
}

// selectOp runs a (possibly single-case) select.  Returns chosen index (-1 default).
func (i *interpreter) selectOp(th *thread, cases []selCase, hasDefault bool, why string) (int, value, bool) {
	i.sched.yield(th, why)
	var ready []int
	for k, c := range cases {
		if c.ready() {
			ready = append(ready, k)
		}
	}
	if len(ready) > 0 {
		k := ready[0]
		if len(ready) > 1 {
			k = ready[i.choose(len(ready), "select")]
			i.ps.choices = append(i.ps.choices, fmt.Sprintf("select@%s:case%d", th.name, k))
		}
		v, ok := i.execCase(cases[k])
		return k, v, ok
	}
	if hasDefault {
		return -1, nil, false
	}
	w := &waiter{th: th, cases: cases, fired: -1}
	for _, c := range cases {
		if c.ch == nil {
			continue
		}
		if c.send {
			c.ch.sendq = append(c.ch.sendq, w)
		} else {
			c.ch.recvq = append(c.ch.recvq, w)
		}
	}
	th.w = w
	th.blocked = func() bool { return w.fired >= 0 }
	i.sched.yield(th, why+"(blocked)")
	th.w = nil
	if w.panicOn {
		panic(targetPanic{iface{types.Typ[types.String], "send on closed channel"}})
	}
	return w.fired, w.recvVal, w.recvOk
}

func (i *interpreter) chanSend(fr *frame, ch *gochan, v value) {
	if ch == nil {
		fr.th.blocked = func() bool { return false }
		i.sched.yield(fr.th, "send on nil chan")
	}
	i.selectOp(fr.th, []selCase{{ch: ch, send: true, val: copyVal(v)}}, false, "chan send")
}

func (i *interpreter) chanRecv(fr *frame, instr *ssa.UnOp, ch *gochan) value {
	if ch == nil {
		fr.th.blocked = func() bool { return false }
		i.sched.yield(fr.th, "recv on nil chan")
	}
	_, v, ok := i.selectOp(fr.th, []selCase{{ch: ch}}, false, "chan recv")
	if !ok {
		v = zero(instr.X.Type().Underlying().(*types.Chan).Elem())
	}
	if instr.CommaOk {
		return tuple{v, ok}
	}
	return v
}

func (i *interpreter) chanClose(fr *frame, ch *gochan) {
	if ch == nil {
		panic(targetPanic{iface{types.Typ[types.String], "close of nil channel"}})
	}
	i.sched.yield(fr.th, "chan close")
	if ch.closed {
		panic(targetPanic{iface{types.Typ[types.String], "close of closed channel"}})
	}
	ch.closed = true
	for len(ch.recvq) > 0 {
		w := ch.recvq[0]
		w.fired = caseIndex(w, ch, false)
		w.recvVal = nil
		w.recvOk = false
		w.unregister()
	}
	for len(ch.sendq) > 0 {
		w := ch.sendq[0]
		w.fired = caseIndex(w, ch, true)
		w.panicOn = true
		w.unregister()
	}
}

func (i *interpreter) doSelect(fr *frame, instr *ssa.Select) value {
	var cases []selCase
	for _, st := range instr.States {
		c := selCase{}
		if ch, ok := fr.get(st.Chan).(*gochan); ok {
			c.ch = ch
		}
		if st.Dir == types.SendOnly {
			c.send = true
			c.val = copyVal(fr.get(st.Send))
		}
		cases = append(cases, c)
	}
	chosen, recv, recvOk := i.selectOp(fr.th, cases, !instr.Blocking, "select")
	r := tuple{chosen, recvOk}
	for k, st := range instr.States {
		if st.Dir == types.RecvOnly {
			var v value
			if k == chosen && recvOk {
				v = recv
			} else {
				v = zero(st.Chan.Type().Underlying().(*types.Chan).Elem())
			}
			r = append(r, v)
		}
	}
	return r
}
