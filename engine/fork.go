package main

// Process creation for the kernel model: vfork.RawVforkSyscall duplicates the calling
// frame.  With CLONE_VM the child runs on the very same heap and locals (so its writes
// are visible to the parent, as with a real vfork); without CLONE_VM every object
// reachable from the frame is deep-copied, preserving aliasing between slices, interior
// pointers and pointers to struct fields.

import (
	"fmt"
	"go/token"
	"go/types"
	"sort"
	"unsafe"

	"golang.org/x/tools/go/ssa"
)

const cellSize = unsafe.Sizeof(value(nil))

type region struct {
	start uintptr
	n     int
	old   []value
	new   []value
}

type heapCopier struct {
	i       *interpreter
	regions []*region
	visited map[*value]bool
	maps    map[*gomap]*gomap
	chans   map[*gochan]*gochan
	clos    map[*closure]*closure
	merged  []*region
}

func (h *heapCopier) addRegion(p *value, n int) {
	if n <= 0 {
		return
	}
	h.regions = append(h.regions, &region{start: uintptr(unsafe.Pointer(p)), n: n, old: unsafe.Slice(p, n)})
}

func (h *heapCopier) collectSlice(x []value) {
	if cap(x) == 0 {
		return
	}
	full := x[:cap(x)]
	h.addRegion(&full[0], len(full))
	for k := range full {
		c := &full[k]
		if !h.visited[c] {
			h.visited[c] = true
			h.collect(full[k])
		}
	}
}

func (h *heapCopier) collect(v value) {
	switch x := v.(type) {
	case *value:
		if x != nil {
			h.addRegion(x, 1)
			if o, ok := h.i.origin[x]; ok {
				h.collectSlice(o)
			}
			if !h.visited[x] {
				h.visited[x] = true
				h.collect(*x)
			}
		}
	case unsafe.Pointer:
		if x != nil {
			h.collect((*value)(x))
		}
	case ptrTok:
		if x.p != nil {
			h.collect(x.p)
		}
	case []value:
		h.collectSlice(x)
	case structure:
		h.collectSlice([]value(x))
	case array:
		h.collectSlice([]value(x))
	case tuple:
		for _, e := range x {
			h.collect(e)
		}
	case iface:
		h.collect(x.v)
	case *closure:
		if x != nil && h.clos[x] == nil {
			h.clos[x] = &closure{Fn: x.Fn}
			for _, e := range x.Env {
				h.collect(e)
			}
		}
	case *gomap:
		if x != nil && h.maps[x] == nil {
			h.maps[x] = makeMap(x.keyType)
			for k := range x.keys {
				if !x.dead[k] {
					h.collect(x.keys[k])
					h.collect(x.vals[k])
				}
			}
		}
	case *gochan:
		if x != nil && h.chans[x] == nil {
			h.chans[x] = &gochan{cap: x.cap, closed: x.closed}
			for _, e := range x.buf {
				h.collect(e)
			}
		}
	}
}

func (h *heapCopier) merge() {
	sort.Slice(h.regions, func(a, b int) bool { return h.regions[a].start < h.regions[b].start })
	for _, r := range h.regions {
		if n := len(h.merged); n > 0 {
			last := h.merged[n-1]
			end := last.start + uintptr(last.n)*cellSize
			if r.start < end {
				rend := r.start + uintptr(r.n)*cellSize
				if rend > end {
					last.n = int((rend - last.start) / cellSize)
					last.old = unsafe.Slice((*value)(unsafe.Pointer(last.start)), last.n)
				}
				continue
			}
		}
		h.merged = append(h.merged, &region{start: r.start, n: r.n, old: r.old})
	}
	for _, r := range h.merged {
		r.new = make([]value, r.n)
	}
}

func (h *heapCopier) find(p *value) (*region, int) {
	a := uintptr(unsafe.Pointer(p))
	k := sort.Search(len(h.merged), func(i int) bool { return h.merged[i].start > a }) - 1
	if k < 0 {
		return nil, 0
	}
	r := h.merged[k]
	off := int((a - r.start) / cellSize)
	if off >= r.n {
		return nil, 0
	}
	return r, off
}

func (h *heapCopier) trSlice(x []value) []value {
	if x == nil {
		return nil
	}
	if cap(x) == 0 {
		return []value{}
	}
	full := x[:cap(x)]
	r, off := h.find(&full[0])
	if r == nil {
		panic(engineError{"fork: slice outside collected heap"})
	}
	return r.new[off : off+len(x) : off+cap(x)]
}

func (h *heapCopier) tr(v value) value {
	switch x := v.(type) {
	case *value:
		if x == nil {
			return x
		}
		r, off := h.find(x)
		if r == nil {
			return x
		}
		return &r.new[off]
	case unsafe.Pointer:
		if x == nil {
			return x
		}
		return unsafe.Pointer(h.tr((*value)(x)).(*value))
	case ptrTok:
		if x.p == nil {
			return x
		}
		return ptrTok{p: h.tr(x.p).(*value), off: x.off}
	case []value:
		return h.trSlice(x)
	case structure:
		return structure(h.trSlice([]value(x)))
	case array:
		return array(h.trSlice([]value(x)))
	case tuple:
		r := make(tuple, len(x))
		for k, e := range x {
			r[k] = h.tr(e)
		}
		return r
	case iface:
		return iface{t: x.t, v: h.tr(x.v)}
	case *closure:
		if x == nil {
			return x
		}
		c := h.clos[x]
		if c.Env == nil && len(x.Env) > 0 {
			c.Env = make([]value, len(x.Env))
			for k, e := range x.Env {
				c.Env[k] = h.tr(e)
			}
		}
		return c
	case *gomap:
		if x == nil {
			return x
		}
		m := h.maps[x]
		if len(m.keys) == 0 && len(x.keys) > 0 {
			for k := range x.keys {
				m.keys = append(m.keys, h.tr(x.keys[k]))
				m.vals = append(m.vals, h.tr(x.vals[k]))
				m.dead = append(m.dead, x.dead[k])
				if !x.dead[k] {
					if nk, ok := nativeKey(m.keys[k]); ok {
						m.index[nk] = k
					}
				}
			}
			m.n = x.n
		}
		return m
	case *gochan:
		if x == nil {
			return x
		}
		return h.chans[x]
	}
	return v
}

// cloneFrame duplicates fr for a forked child.
func cloneFrame(fr *frame, deep bool) *frame {
	c := &frame{i: fr.i, fn: fr.fn, block: fr.block, prevBlock: fr.prevBlock, pc: fr.pc, callpos: fr.callpos}
	c.env = make(map[ssa.Value]value, len(fr.env))
	if !deep {
		for k, v := range fr.env {
			c.env[k] = v
		}
		c.locals = fr.locals
		return c
	}
	h := &heapCopier{i: fr.i, visited: map[*value]bool{}, maps: map[*gomap]*gomap{}, chans: map[*gochan]*gochan{}, clos: map[*closure]*closure{}}
	h.collectSlice(fr.locals)
	for _, v := range fr.env {
		h.collect(v)
	}
	h.merge()
	for _, r := range h.merged {
		for k := range r.old {
			r.new[k] = h.tr(r.old[k])
		}
	}
	for k, v := range fr.env {
		c.env[k] = h.tr(v)
	}
	if len(fr.locals) > 0 {
		c.locals = h.trSlice(fr.locals)
	}
	return c
}

func (i *interpreter) lookupFunc(pkgPath, name string) *ssa.Function {
	for _, p := range i.prog.AllPackages() {
		if p.Pkg.Path() == pkgPath {
			return p.Func(name)
		}
	}
	return nil
}

const kernPkg = "github.com/criyle/go-sandbox/zzverif/kern"

func init() {
	externals["github.com/criyle/go-sandbox/pkg/forkexec/vfork.RawVforkSyscall"] = func(fr *frame, args []value) value {
		i := fr.i
		cloneFn := i.lookupFunc(kernPkg, "Clone")
		if cloneFn == nil {
			unsupported("RawVforkSyscall without the kern model loaded")
		}
		res := call(i, fr, token.NoPos, cloneFn, args).(tuple)
		pid, errno := res[0], res[1]
		vm, vfork := i.truth(res[2]), i.truth(res[3])
		if !i.truth(svOrConst(i.equalsT(types.Typ[types.Uintptr], errno, uintptr(0)), types.Bool)) {
			return tuple{pid, errno}
		}
		caller := fr.caller
		if caller == nil || caller.block == nil {
			panic(engineError{"fork: no calling frame"})
		}
		callInstr := caller.block.Instrs[caller.pc-1].(ssa.Value)
		child := cloneFrame(caller, !vm)
		zeroErr := zero(caller.fn.Prog.ImportedPackage("syscall").Type("Errno").Type())
		child.env[callInstr] = tuple{uintptr(0), zeroErr}
		cpid := int(asInt64(pid))
		th := i.spawnFrame(fr.th, child, fmt.Sprintf("proc%d", cpid), cpid)
		_ = th
		i.ps.events = append(i.ps.events, fmt.Sprintf("clone -> pid %d (vm=%v vfork=%v)", cpid, vm, vfork))
		if vfork {
			rel := i.lookupFunc(kernPkg, "VforkReleased")
			fr.th.blocked = func() bool {
				return i.truth(call(i, &frame{i: i, th: i.sched.cur}, token.NoPos, rel, []value{cpid}))
			}
			i.sched.yield(fr.th, "vfork(wait child)")
		} else {
			i.sched.yield(fr.th, "clone")
		}
		return tuple{pid, errno}
	}
	externals[symPkg+".KillPid"] = func(fr *frame, args []value) value {
		pid := int(asInt64(args[0]))
		for _, t := range fr.i.sched.threads {
			if t.pid == pid && t != fr.th && pid != 0 {
				t.done = true
			}
		}
		return nil
	}
	externals[symPkg+".PtrTokenOf"] = func(fr *frame, args []value) value {
		p, ok := args[0].(iface).v.(*value)
		if !ok || p == nil {
			return uintptr(0)
		}
		return ptrTok{p: p}
	}
	externals[symPkg+".InnerPtr"] = func(fr *frame, args []value) value {
		p, ok := args[0].(iface).v.(*value)
		if !ok || p == nil {
			return unsafe.Pointer(nil)
		}
		st, ok := (*p).(structure)
		if !ok || len(st) == 0 {
			return unsafe.Pointer(p)
		}
		return unsafe.Pointer(&st[0])
	}
	externals[symPkg+".U32sAt"] = func(fr *frame, args []value) value {
		n := int(asInt64(args[1]))
		u, ok := args[0].(ptrTok)
		if !ok || u.p == nil {
			return []value(nil)
		}
		return unsafe.Slice(u.p, n)
	}
}
