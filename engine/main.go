package main

import (
	"runtime/debug"
	"runtime/pprof"
	"encoding/json"
	"flag"
	"fmt"
	"go/types"
	"os"
	"path/filepath"
	"regexp"
	"sort"
	"strings"
	"time"

	"golang.org/x/tools/go/packages"
	"golang.org/x/tools/go/ssa"
	"golang.org/x/tools/go/ssa/ssautil"
)

type harnessResult struct {
	Harness        string                   `json:"harness"`
	Paths          int                      `json:"paths"`
	Completed      int                      `json:"completed"`
	Aborted        int                      `json:"aborted"`
	Errored        int                      `json:"errored"`
	Exhaustive     bool                     `json:"exhaustive"`
	TimedOut       bool                     `json:"timed_out"`
	Asserts        int                      `json:"asserts"`
	Discharged     int                      `json:"discharged"`
	UnknownAsserts int                      `json:"unknown_asserts"`
	UnknownBranch  int                      `json:"unknown_branches"`
	Violations     []violation              `json:"violations"`
	Errors         []string                 `json:"errors"`
	Reach          map[string]int           `json:"reach"`
	Queries        int                      `json:"queries"`
	QSat           int                      `json:"q_sat"`
	QUnsat         int                      `json:"q_unsat"`
	QUnknown       int                      `json:"q_unknown"`
	CacheHits      int                      `json:"cache_hits"`
	SolverSec      float64                  `json:"solver_s"`
	WallSec        float64                  `json:"wall_s"`
	Steps          int64                    `json:"steps"`
	MaxDecisions   int                      `json:"max_decisions"`
	Funcs          []string                 `json:"functions_encoded"`
	Stubs          []string                 `json:"stubs"`
	Samples        []map[string]interface{} `json:"samples"`
	DistinctPaths  int                      `json:"distinct_path_signatures"`
	Bounds         map[string]string        `json:"bounds,omitempty"`
	AbortReasons   map[string]int           `json:"abort_reasons,omitempty"`
	Outputs        map[string]string        `json:"outputs,omitempty"`
}

func main() {
	dir := flag.String("dir", "/repo", "module directory of the code under test")
	ovDir := flag.String("overlay", "", "directory whose files are overlaid onto -dir (same relative paths)")
	pkgPat := flag.String("pkg", "", "package pattern (relative to -dir) containing the harness functions")
	runRe := flag.String("run", "^Verif", "regexp selecting harness functions")
	out := flag.String("out", "", "result JSON file")
	maxPaths := flag.Int("max-paths", 200000, "path budget per harness")
	maxSteps := flag.Int64("max-steps", 20000000, "instruction budget per path")
	concCap := flag.Int("conc-cap", 64, "max values per concretisation")
	timeout := flag.Int("timeout", 600, "wall-clock budget per harness (s)")
	qTimeout := flag.Int("query-timeout", 10000, "solver timeout per query (ms)")
	preempt := flag.Int("preempt", 2, "preemption bound")
	solverBin := flag.String("solver", "z3", "solver binary")
	trace := flag.Bool("trace", false, "trace instructions")
	verbose := flag.Bool("v", false, "verbose")
	transcript := flag.String("transcript", "", "write solver transcript")
	dumpQ := flag.String("dump-queries", "", "directory: write every -dump-every-th decided query as a standalone SMT-LIB2 script (cross-solver diff)")
	dumpEvery := flag.Int("dump-every", 50, "sampling period for -dump-queries")
	replayDec := flag.String("replay-decisions", "", "JSON file with a decision prefix to run once")
	tags := flag.String("tags", "", "build tags")
	fixAsg := flag.String("fix-assignment", "", "replay: JSON {assignment, ch_decisions}; run one concrete path")
	cpuprof := flag.String("cpuprofile", "", "write cpu profile")
	flag.Parse()
	// the live heap is dominated by the (static) SSA program: collect rarely
	debug.SetGCPercent(1500)
	if *cpuprof != "" {
		f, _ := os.Create(*cpuprof)
		pprof.StartCPUProfile(f)
		defer pprof.StopCPUProfile()
	}

	overlay := map[string][]byte{}
	if *ovDir != "" {
		filepath.Walk(*ovDir, func(p string, info os.FileInfo, err error) error {
			if err != nil || info.IsDir() || !strings.HasSuffix(p, ".go") {
				return nil
			}
			rel, _ := filepath.Rel(*ovDir, p)
			b, err := os.ReadFile(p)
			if err == nil {
				overlay[filepath.Join(*dir, rel)] = b
			}
			return nil
		})
	}
	t0 := time.Now()
	cfg := &packages.Config{
		Mode:    packages.LoadAllSyntax,
		Dir:     *dir,
		Overlay: overlay,
		Env:     append(os.Environ(), "GOFLAGS=-mod=mod", "GOPROXY=off", "CGO_ENABLED=0"),
	}
	if *tags != "" {
		cfg.BuildFlags = []string{"-tags=" + *tags}
	}
	pats := strings.Fields(*pkgPat)
	initial, err := packages.Load(cfg, pats...)
	if err != nil {
		fmt.Fprintln(os.Stderr, "load:", err)
		os.Exit(2)
	}
	if packages.PrintErrors(initial) > 0 {
		fmt.Fprintln(os.Stderr, "load: errors in packages (harness no longer compiles against /repo?)")
		os.Exit(2)
	}
	prog, pkgs := ssautil.AllPackages(initial, ssa.InstantiateGenerics|ssa.SanityCheckFunctions)
	prog.Build()
	if *verbose {
		fmt.Fprintf(os.Stderr, "loaded+built in %.1fs\n", time.Since(t0).Seconds())
	}
	re := regexp.MustCompile(*runRe)
	var harnesses []*ssa.Function
	for _, p := range pkgs {
		if p == nil {
			continue
		}
		var names []string
		for name, m := range p.Members {
			if f, ok := m.(*ssa.Function); ok && re.MatchString(name) && f.Signature.Params().Len() == 0 {
				names = append(names, name)
			}
		}
		sort.Strings(names)
		for _, n := range names {
			harnesses = append(harnesses, p.Func(n))
		}
	}
	if len(harnesses) == 0 {
		fmt.Fprintln(os.Stderr, "no harness functions match", *runRe)
		os.Exit(2)
	}
	var results []harnessResult
	for _, h := range harnesses {
		opts := &runOpts{sizes: &types.StdSizes{WordSize: 8, MaxAlign: 8}, maxSteps: *maxSteps, maxPreempt: *preempt, tracing: *trace, verbose: *verbose}
		solver, err := newSolver(*solverBin, solverArgs(*solverBin), *qTimeout, *transcript)
		if err == nil && *dumpQ != "" {
			os.MkdirAll(*dumpQ, 0755)
			solver.dumpDir, solver.dumpEvery = *dumpQ, *dumpEvery
		}
		if err != nil {
			fmt.Fprintln(os.Stderr, "solver:", err)
			os.Exit(2)
		}
		ex := &explorer{solver: solver, harness: h.Name(), maxPaths: *maxPaths, concCap: *concCap,
			reachAll: map[string]int{}, funcs: map[*ssa.Function]bool{}, stubs: map[string]int{}, distinctSig: map[string]bool{}, outputs: map[string]string{},
			start: time.Now(), deadline: time.Now().Add(time.Duration(*timeout) * time.Second)}
		if *fixAsg != "" {
			var fa struct {
				Assignment map[string]uint64 `json:"assignment"`
				ChDecs     []int             `json:"ch_decisions"`
			}
			b, err := os.ReadFile(*fixAsg)
			if err != nil {
				fmt.Fprintln(os.Stderr, err)
				os.Exit(2)
			}
			json.Unmarshal(b, &fa)
			ex.fixed = fa.Assignment
			if ex.fixed == nil {
				ex.fixed = map[string]uint64{}
			}
			ex.fixCh = fa.ChDecs
		}
		if *replayDec != "" {
			var pre []decision
			b, _ := os.ReadFile(*replayDec)
			json.Unmarshal(b, &pre)
			ex.work = [][]decision{pre}
		} else {
			ex.work = [][]decision{nil}
		}
		exhaustive := true
		for len(ex.work) > 0 {
			if ex.paths >= ex.maxPaths {
				exhaustive = false
				break
			}
			if time.Now().After(ex.deadline) {
				exhaustive = false
				ex.timedOut = true
				break
			}
			pre := ex.work[len(ex.work)-1]
			ex.work = ex.work[:len(ex.work)-1]
			ex.runOne(prog, h, pre, opts)
			if *replayDec != "" || *fixAsg != "" {
				break
			}
		}
		r := harnessResult{Harness: h.Name(), Paths: ex.paths, Completed: ex.completed, Aborted: ex.aborted, Errored: ex.errored,
			Exhaustive: exhaustive && ex.errored == 0, TimedOut: ex.timedOut, Asserts: ex.asserts, Discharged: ex.discharged,
			UnknownAsserts: ex.unknownAssert, UnknownBranch: ex.unknownBranch, Violations: ex.violations, Errors: ex.errors,
			Reach: ex.reachAll, Queries: solver.nQueries, QSat: solver.nSat, QUnsat: solver.nUnsat, QUnknown: solver.nUnknown,
			CacheHits: solver.cacheHits, SolverSec: solver.solverTime.Seconds(), WallSec: time.Since(ex.start).Seconds(),
			Steps: ex.totalSteps, MaxDecisions: ex.maxDecisions, Samples: ex.samples, DistinctPaths: len(ex.distinctSig), AbortReasons: ex.abortReasons, Outputs: ex.outputs}
		for f := range ex.funcs {
			pos := prog.Fset.Position(f.Pos())
			r.Funcs = append(r.Funcs, fmt.Sprintf("%s (%s:%d)", f.String(), shortPos(pos.Filename), pos.Line))
		}
		sort.Strings(r.Funcs)
		r.Stubs = sortedKeys(ex.stubs)
		solver.close()
		results = append(results, r)
		fmt.Fprintf(os.Stderr, "%s: paths=%d completed=%d aborted=%d errored=%d violations=%d asserts=%d/%d unknown=%d/%d queries=%d solver=%.1fs wall=%.1fs exhaustive=%v\n",
			r.Harness, r.Paths, r.Completed, r.Aborted, r.Errored, len(r.Violations), r.Discharged, r.Asserts, r.UnknownAsserts, r.UnknownBranch, r.Queries, r.SolverSec, r.WallSec, r.Exhaustive)
		for _, e := range r.Errors {
			fmt.Fprintln(os.Stderr, "  error:", e)
		}
		for k, v := range r.Violations {
			if k < 5 {
				ch := v.Choices
				if len(ch) > 12 {
					ch = append(append([]string{}, ch[:6]...), "...")
				}
				fmt.Fprintf(os.Stderr, "  violation: [%s] %s at %s assignment=%v choices=%v\n", v.Kind, v.Msg, v.Pos, v.Assignment, ch)
			}
		}
	}
	if *out != "" {
		b, _ := json.MarshalIndent(results, "", " ")
		os.WriteFile(*out, b, 0644)
	}
}

func solverArgs(bin string) []string {
	switch {
	case strings.Contains(bin, "cvc5"):
		return []string{"--incremental", "--lang=smt2", "--tlimit-per=10000"}
	default:
		return []string{"-in"}
	}
}
