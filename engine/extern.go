package main

// Externals: functions implemented by the engine instead of being interpreted:
// the sym.* harness intrinsics, assembly/runtime leaf routines of the standard
// library, synchronisation primitives, fmt, errors.Is/As.

import (
	"fmt"
	"go/token"
	"go/types"
	"sort"
	"strings"
	"unsafe"

	"golang.org/x/tools/go/ssa"
)

type externalFn func(fr *frame, args []value) value

var externals = map[string]externalFn{}

// packages whose init is not interpreted (globals zero unless engineInit sets them)
var skipInit = map[string]bool{
	"errors": true, "os": true, "syscall": true, "golang.org/x/sys/unix": true, "time": true, "runtime": true, "reflect": true, "internal/reflectlite": true, "sync": true, "sync/atomic": true,
	"internal/cpu": true, "internal/godebug": true, "internal/poll": true, "internal/bytealg": true,
	"runtime/internal/sys": true, "internal/abi": true, "internal/goarch": true, "unsafe": true,
	"internal/testlog": true, "internal/syscall/unix": true, "internal/syscall/execenv": true,
	"net": true, "os/exec": true, "os/signal": true, "encoding/gob": true, "fmt": true, "log": true,
	"encoding/json": true, "flag": true, "testing": true, "internal/sync": true, "internal/race": true,
	"math/rand": true, "math/rand/v2": true, "crypto/rand": true, "internal/chacha8rand": true,
}

var engineInit = map[string]func(i *interpreter, pkg *ssa.Package){}

const symPkg = "github.com/criyle/go-sandbox/zzverif/sym"

func str(v value) string {
	switch v := v.(type) {
	case string:
		return v
	case symstr:
		return toString(v)
	}
	panic(fmt.Sprintf("str: %T", v))
}

func init() {
	engineInit["errors"] = func(i *interpreter, pkg *ssa.Package) {
		if g, ok := pkg.Members["ErrUnsupported"].(*ssa.Global); ok {
			cell := i.global(g)
			*cell = call(i, &frame{i: i, th: i.sched.cur}, token.NoPos, pkg.Func("New"), []value{"unsupported operation"})
		}
	}
	engineInit["os"] = func(i *interpreter, pkg *ssa.Package) {
		fsPkg := i.prog.ImportedPackage("io/fs")
		for _, n := range []string{"ErrInvalid", "ErrPermission", "ErrExist", "ErrNotExist", "ErrClosed"} {
			if g, ok := pkg.Members[n].(*ssa.Global); ok && fsPkg != nil {
				if fg, ok := fsPkg.Members[n].(*ssa.Global); ok {
					*i.global(g) = *i.global(fg)
				}
			}
		}
		errPkg := i.prog.ImportedPackage("errors")
		mk := func(n, msg string) {
			if g, ok := pkg.Members[n].(*ssa.Global); ok && errPkg != nil {
				*i.global(g) = call(i, &frame{i: i, th: i.sched.cur}, token.NoPos, errPkg.Func("New"), []value{msg})
			}
		}
		mk("ErrProcessDone", "os: process already finished")
		mk("ErrNoDeadline", "file type does not support deadline")
		mk("errPathEscapes", "path escapes from parent")
	}
	engineInit["syscall"] = func(i *interpreter, pkg *ssa.Package) {
		for n, v := range map[string]int{"Stdin": 0, "Stdout": 1, "Stderr": 2} {
			if g, ok := pkg.Members[n].(*ssa.Global); ok {
				*i.global(g) = v
			}
		}
	}
	ext := externals
	mkSym := func(k types.BasicKind) externalFn {
		w, _, _ := kindInfo(k)
		return func(fr *frame, args []value) value {
			return &SV{fr.i.freshVar(str(args[0]), w)}
		}
	}
	ext[symPkg+".U64"] = mkSym(types.Uint64)
	ext[symPkg+".U32"] = mkSym(types.Uint32)
	ext[symPkg+".U16"] = mkSym(types.Uint16)
	ext[symPkg+".U8"] = mkSym(types.Uint8)
	ext[symPkg+".I64"] = mkSym(types.Int64)
	ext[symPkg+".I32"] = mkSym(types.Int32)
	ext[symPkg+".Int"] = mkSym(types.Int)
	ext[symPkg+".Uintptr"] = mkSym(types.Uintptr)
	ext[symPkg+".Bool"] = func(fr *frame, args []value) value {
		return &SV{fr.i.freshVar(str(args[0]), 0)}
	}
	ext[symPkg+".Bytes"] = func(fr *frame, args []value) value {
		n := int(asInt64(args[1]))
		r := make([]value, n)
		for k := range r {
			r[k] = &SV{fr.i.freshVar(fmt.Sprintf("%s_%d", str(args[0]), k), 8)}
		}
		return r
	}
	ext[symPkg+".Str"] = func(fr *frame, args []value) value {
		n := int(asInt64(args[1]))
		r := make(symstr, n)
		for k := range r {
			r[k] = &SV{fr.i.freshVar(fmt.Sprintf("%s_%d", str(args[0]), k), 8)}
		}
		return normStr(r)
	}
	ext[symPkg+".Choose"] = func(fr *frame, args []value) value {
		n := int(asInt64(args[1]))
		k := fr.i.choose(n, str(args[0]))
		fr.i.ps.choices = append(fr.i.ps.choices, fmt.Sprintf("%s=%d", str(args[0]), k))
		return k
	}
	ext[symPkg+".Assume"] = func(fr *frame, args []value) value {
		fr.i.assume(args[0])
		return nil
	}
	ext[symPkg+".Assert"] = func(fr *frame, args []value) value {
		fr.i.assert(args[0], str(args[1]), fr.callpos)
		return nil
	}
	ext[symPkg+".Reach"] = func(fr *frame, args []value) value {
		fr.i.ps.reach[str(args[0])] = true
		return nil
	}
	ext[symPkg+".Note"] = func(fr *frame, args []value) value {
		fr.i.ps.events = append(fr.i.ps.events, fr.i.sprint(args[0]))
		return nil
	}
	ext[symPkg+".Notef"] = func(fr *frame, args []value) value {
		fr.i.ps.events = append(fr.i.ps.events, fr.i.sprintf(fr, str(args[0]), args[1].([]value)))
		return nil
	}
	ext[symPkg+".Extra"] = func(fr *frame, args []value) value {
		fr.i.ps.extra[str(args[0])] = fr.i.sprint(args[1])
		return nil
	}
	ext[symPkg+".Output"] = func(fr *frame, args []value) value {
		fr.i.ex.outputs[str(args[0])] = fr.i.sprint(args[1])
		return nil
	}
	ext[symPkg+".Intercept"] = func(fr *frame, args []value) value {
		fr.i.intercepts[str(args[0])] = args[1].(iface).v
		fr.i.ex.stubs[str(args[0])]++
		return nil
	}
	ext[symPkg+".Unintercept"] = func(fr *frame, args []value) value {
		delete(fr.i.intercepts, str(args[0]))
		return nil
	}
	ext[symPkg+".IsSymbolic"] = func(fr *frame, args []value) value {
		return isSym(args[0].(iface).v)
	}
	ext[symPkg+".Concrete"] = func(fr *frame, args []value) value {
		if sv, ok := args[0].(*SV); ok {
			return uint64(fr.i.concretize(sv.t, "sym.Concrete"))
		}
		return args[0]
	}
	ext[symPkg+".ConcreteInt"] = func(fr *frame, args []value) value {
		if sv, ok := args[0].(*SV); ok {
			return int(fr.i.concretize(sv.t, "sym.ConcreteInt"))
		}
		return args[0]
	}
	ext[symPkg+".ConcreteStr"] = func(fr *frame, args []value) value {
		return fr.i.concStr(args[0])
	}
	ext[symPkg+".Ite64"] = func(fr *frame, args []value) value {
		c := fr.i.toTerm(args[0], 0)
		return svOrConst(mkIte(c, fr.i.toTerm(args[1], 64), fr.i.toTerm(args[2], 64)), types.Uint64)
	}
	// scheduling
	ext[symPkg+".Yield"] = func(fr *frame, args []value) value {
		fr.i.sched.yield(fr.th, "sym.Yield")
		return nil
	}
	ext[symPkg+".WaitUntil"] = func(fr *frame, args []value) value {
		pred := args[0]
		i := fr.i
		fr.th.blocked = func() bool {
			return i.truth(call(i, &frame{i: i, th: i.sched.cur}, token.NoPos, pred, nil))
		}
		i.sched.yield(fr.th, "WaitUntil")
		return nil
	}
	ext[symPkg+".WaitOthers"] = func(fr *frame, args []value) value {
		i := fr.i
		self := fr.th
		self.blocked = func() bool { return len(i.sched.enabledThreads(self)) == 0 }
		i.sched.yield(self, "WaitOthers")
		return nil
	}
	ext[symPkg+".ThreadID"] = func(fr *frame, args []value) value { return fr.th.id }
	ext[symPkg+".Pid"] = func(fr *frame, args []value) value { return fr.th.pid }
	ext[symPkg+".SetPid"] = func(fr *frame, args []value) value {
		fr.th.pid = int(asInt64(args[0]))
		return nil
	}
	ext[symPkg+".ThreadsAlive"] = func(fr *frame, args []value) value {
		n := 0
		for _, t := range fr.i.sched.threads {
			if !t.done && t != fr.th {
				n++
			}
		}
		return n
	}
	ext[symPkg+".ExitThread"] = func(fr *frame, args []value) value {
		code := 0
		if _, ok := args[0].(*SV); !ok {
			code = int(asInt64(args[0]))
		}
		panic(exitPanic{code})
	}
	// memory intrinsics for the kernel model
	ext[symPkg+".PtrOf"] = func(fr *frame, args []value) value {
		switch u := args[0].(type) {
		case ptrTok:
			if u.off != 0 {
				unsupported("PtrOf with offset")
			}
			return unsafe.Pointer(u.p)
		case uintptr:
			if u == 0 {
				return unsafe.Pointer(nil)
			}
			return rawAddr{u}
		case *SV:
			return rawAddr{u}
		}
		panic(fmt.Sprintf("PtrOf: %T", args[0]))
	}
	ext[symPkg+".RawAddr"] = func(fr *frame, args []value) value {
		switch p := args[0].(type) {
		case rawAddr:
			return p.a
		case *value:
			if p == nil {
				return uintptr(0)
			}
			return ptrTok{p: p}
		}
		panic(fmt.Sprintf("RawAddr: %T", args[0]))
	}
	ext[symPkg+".PtrToken"] = func(fr *frame, args []value) value {
		switch p := args[0].(type) {
		case *value:
			if p == nil {
				return uintptr(0)
			}
			return ptrTok{p: p}
		case rawAddr:
			return p.a
		}
		panic(fmt.Sprintf("PtrToken: %T", args[0]))
	}
	ext[symPkg+".IsPtr"] = func(fr *frame, args []value) value {
		_, ok := args[0].(ptrTok)
		return ok
	}
	ext[symPkg+".BytesAt"] = func(fr *frame, args []value) value {
		n := int(fr.i.concInt(args[1], types.Typ[types.Int], "BytesAt len"))
		u, ok := args[0].(ptrTok)
		if !ok || u.p == nil {
			return []value(nil)
		}
		if u.off != 0 {
			unsupported("BytesAt with offset")
		}
		return unsafe.Slice(u.p, n)
	}
	ext[symPkg+".CString"] = func(fr *frame, args []value) value {
		u, ok := args[0].(ptrTok)
		if !ok || u.p == nil {
			return ""
		}
		var r symstr
		p := u.p
		for k := 0; k < 8192; k++ {
			e := *(*value)(unsafe.Add(unsafe.Pointer(p), uintptr(k)*unsafe.Sizeof(value(nil))))
			switch b := e.(type) {
			case uint8:
				if b == 0 {
					return normStr(r)
				}
				r = append(r, b)
			case *SV:
				if fr.i.decide(mkCmp("=", b.t, mkConst(8, 0))) {
					return normStr(r)
				}
				r = append(r, b)
			default:
				panic(fmt.Sprintf("CString: non-byte element %T at offset %d (prefix %q) called from %s", e, k, toString(normStr(r)), fr.i.pos(fr.callpos)))
			}
		}
		unsupported("CString: unterminated")
		return nil
	}
	ext[symPkg+".Snapshot"] = func(fr *frame, args []value) value {
		// deep copy of the object a pointer token designates, boxed as interface{}
		u, ok := args[0].(ptrTok)
		if !ok || u.p == nil {
			return iface{}
		}
		return iface{t: types.Typ[types.UnsafePointer], v: snapshot{copyVal(*u.p)}}
	}
	ext[symPkg+".Restore"] = func(fr *frame, args []value) value {
		u, ok := args[0].(ptrTok)
		if !ok || u.p == nil {
			return false
		}
		s, ok := args[1].(iface).v.(snapshot)
		if !ok {
			return false
		}
		return restoreInto(u.p, s.v)
	}

	// runtime and friends
	nop := func(fr *frame, args []value) value { return nil }
	for _, n := range []string{"runtime.LockOSThread", "runtime.UnlockOSThread", "runtime.Gosched", "runtime.KeepAlive",
		"runtime.SetFinalizer", "runtime.GC", "syscall.runtime_BeforeFork", "syscall.runtime_AfterFork",
		"syscall.runtime_AfterForkInChild", "internal/race.Acquire", "internal/race.Release", "internal/race.Disable",
		"internal/race.Enable", "internal/race.ReleaseMerge", "internal/race.Read", "internal/race.Write",
		"internal/race.ReadRange", "internal/race.WriteRange", "runtime.debugCallCheck", "os.runtime_beforeExit",
		"internal/godebug.(*Setting).IncNonDefault", "log.Printf", "log.Println", "log.Print",
		"github.com/criyle/go-sandbox/pkg/forkexec.beforeFork", "github.com/criyle/go-sandbox/pkg/forkexec.afterFork",
		"github.com/criyle/go-sandbox/pkg/forkexec.afterForkInChild"} {
		ext[n] = nop
	}
	ext["internal/godebug.(*Setting).Value"] = func(fr *frame, args []value) value { return "" }
	ext["runtime.GOMAXPROCS"] = func(fr *frame, args []value) value { return 16 }
	ext["runtime.NumCPU"] = func(fr *frame, args []value) value { return 16 }
	ext["internal/abi.NoEscape"] = func(fr *frame, args []value) value { return args[0] }
	ext["internal/abi.Escape"] = func(fr *frame, args []value) value { return args[0] }
	ext["os.Exit"] = func(fr *frame, args []value) value {
		fr.i.ps.events = append(fr.i.ps.events, fmt.Sprintf("os.Exit(%v) by %s", args[0], fr.th.name))
		panic(exitPanic{int(asInt64(args[0]))})
	}
	ext["golang.org/x/sys/unix.Statfs"] = func(fr *frame, args []value) value {
		// default (harnesses may intercept): no file system information available
		errno := fr.i.prog.ImportedPackage("syscall").Type("Errno").Type()
		return iface{t: errno, v: uintptr(38)}
	}
	ext["os.Getpagesize"] = func(fr *frame, args []value) value { return 4096 }
	ext["syscall.Getpagesize"] = func(fr *frame, args []value) value { return 4096 }
	ext["golang.org/x/sys/unix.Getpagesize"] = func(fr *frame, args []value) value { return 4096 }
	ext["os.Getpid"] = func(fr *frame, args []value) value { return 1000 + fr.th.pid }

	// time: a logical clock that advances one second per observation
	ext["time.Now"] = func(fr *frame, args []value) value {
		n, _ := fr.i.side["clock"].(int64)
		n++
		fr.i.side["clock"] = n
		return structure{uint64(0), int64(63000000000 + n), (*value)(nil)}
	}
	ext["time.Since"] = func(fr *frame, args []value) value {
		n, _ := fr.i.side["clock"].(int64)
		n++
		fr.i.side["clock"] = n
		t := args[0].(structure)
		if ext0, ok := t[1].(int64); ok && ext0 != 0 {
			return (int64(63000000000+n) - ext0) * 1000000000
		}
		return int64(n) * 1000000000
	}
	ext["time.Sleep"] = func(fr *frame, args []value) value {
		fr.i.sched.yield(fr.th, "sleep")
		return nil
	}
	ext["time.runtimeNano"] = func(fr *frame, args []value) value { return int64(1) }

	// bytealg
	ext["internal/bytealg.IndexByte"] = func(fr *frame, args []value) value {
		return fr.i.indexByte(args[0], args[1], false)
	}
	ext["internal/bytealg.IndexByteString"] = ext["internal/bytealg.IndexByte"]
	ext["internal/bytealg.LastIndexByte"] = func(fr *frame, args []value) value {
		return fr.i.indexByte(args[0], args[1], true)
	}
	ext["internal/bytealg.LastIndexByteString"] = ext["internal/bytealg.LastIndexByte"]
	ext["internal/bytealg.Equal"] = func(fr *frame, args []value) value {
		a, b := seqOf(args[0]), seqOf(args[1])
		if len(a) != len(b) {
			return false
		}
		return svOrConst(strEqT(a, b), types.Bool)
	}
	ext["internal/bytealg.Count"] = func(fr *frame, args []value) value {
		a := seqOf(args[0])
		n := 0
		for _, e := range a {
			if fr.i.truth(svOrConst(mkCmp("=", byteTerm(e), byteTerm(args[1])), types.Bool)) {
				n++
			}
		}
		return n
	}
	ext["internal/bytealg.CountString"] = ext["internal/bytealg.Count"]
	ext["internal/bytealg.Compare"] = func(fr *frame, args []value) value {
		a, b := seqOf(args[0]), seqOf(args[1])
		lt := fr.i.strBinop(token.LSS, a, b)
		if fr.i.truth(lt) {
			return -1
		}
		if len(a) == len(b) && fr.i.truth(svOrConst(strEqT(a, b), types.Bool)) {
			return 0
		}
		return 1
	}
	ext["internal/bytealg.IndexString"] = func(fr *frame, args []value) value {
		return fr.i.indexSeq(seqOf(args[0]), seqOf(args[1]))
	}
	ext["internal/bytealg.Index"] = ext["internal/bytealg.IndexString"]
	ext["internal/bytealg.MakeNoZero"] = func(fr *frame, args []value) value {
		n := int(asInt64(args[0]))
		r := make([]value, n)
		for k := range r {
			r[k] = uint8(0)
		}
		return r
	}
	ext["internal/stringslite.Clone"] = func(fr *frame, args []value) value { return args[0] }
	ext["strings.Clone"] = func(fr *frame, args []value) value { return args[0] }
	ext["runtime.memequal"] = ext["internal/bytealg.Equal"]

	// sync/atomic
	atomicLoad := func(fr *frame, args []value) value { fr.i.sched.yield(fr.th, "atomic"); return *args[0].(*value) }
	atomicStore := func(fr *frame, args []value) value {
		fr.i.sched.yield(fr.th, "atomic")
		*args[0].(*value) = args[1]
		return nil
	}
	atomicAdd := func(fr *frame, args []value) value {
		fr.i.sched.yield(fr.th, "atomic")
		p := args[0].(*value)
		bits, k, _ := intBits(*p)
		d, _, _ := intBits(args[1])
		*p = mkInt(k, bits+d)
		return *p
	}
	atomicSwap := func(fr *frame, args []value) value {
		fr.i.sched.yield(fr.th, "atomic")
		p := args[0].(*value)
		old := *p
		*p = args[1]
		return old
	}
	atomicCAS := func(fr *frame, args []value) value {
		fr.i.sched.yield(fr.th, "atomic")
		p := args[0].(*value)
		if *p == args[1] {
			*p = args[2]
			return true
		}
		return false
	}
	for _, t := range []string{"Int32", "Int64", "Uint32", "Uint64", "Uintptr", "Pointer"} {
		ext["sync/atomic.Load"+t] = atomicLoad
		ext["sync/atomic.Store"+t] = atomicStore
		ext["sync/atomic.Add"+t] = atomicAdd
		ext["sync/atomic.Swap"+t] = atomicSwap
		ext["sync/atomic.CompareAndSwap"+t] = atomicCAS
		ext["internal/runtime/atomic.Load"+t] = atomicLoad
	}
	ext["sync/atomic.(*Value).Load"] = func(fr *frame, args []value) value {
		st := (*args[0].(*value)).(structure)
		return st[0]
	}
	ext["sync/atomic.(*Value).Store"] = func(fr *frame, args []value) value {
		st := (*args[0].(*value)).(structure)
		st[0] = args[1]
		return nil
	}

	// mutexes: side table keyed by receiver address
	type mstate struct {
		locked    bool
		readers   int
		owner     int
		contended bool
	}
	getM := func(i *interpreter, p value) *mstate {
		key := p.(*value)
		if m, ok := i.side[key]; ok {
			return m.(*mstate)
		}
		m := &mstate{}
		i.side[key] = m
		return m
	}
	lock := func(fr *frame, args []value) value {
		m := getM(fr.i, args[0])
		if m.locked || m.readers > 0 || m.contended {
			m.contended = true
			fr.i.sched.yield(fr.th, "Lock")
		}
		if m.locked || m.readers > 0 {
			fr.th.blocked = func() bool { return !m.locked && m.readers == 0 }
			fr.i.sched.yield(fr.th, "Lock(blocked)")
		}
		m.locked = true
		m.owner = fr.th.id
		return nil
	}
	unlock := func(fr *frame, args []value) value {
		m := getM(fr.i, args[0])
		if !m.locked {
			panic(targetPanic{iface{types.Typ[types.String], "sync: unlock of unlocked mutex"}})
		}
		m.locked = false
		if m.contended {
			fr.i.sched.yield(fr.th, "Unlock")
		}
		return nil
	}
	ext["(*sync.Mutex).Lock"] = lock
	ext["(*sync.Mutex).Unlock"] = unlock
	ext["(*sync.Mutex).TryLock"] = func(fr *frame, args []value) value {
		m := getM(fr.i, args[0])
		fr.i.sched.yield(fr.th, "TryLock")
		if m.locked || m.readers > 0 {
			return false
		}
		m.locked = true
		return true
	}
	ext["(*sync.RWMutex).Lock"] = lock
	ext["(*sync.RWMutex).Unlock"] = unlock
	ext["(*sync.RWMutex).RLock"] = func(fr *frame, args []value) value {
		m := getM(fr.i, args[0])
		fr.i.sched.yield(fr.th, "RLock")
		if m.locked {
			fr.th.blocked = func() bool { return !m.locked }
			fr.i.sched.yield(fr.th, "RLock(blocked)")
		}
		m.readers++
		return nil
	}
	ext["(*sync.RWMutex).RUnlock"] = func(fr *frame, args []value) value {
		m := getM(fr.i, args[0])
		if m.readers <= 0 {
			panic(targetPanic{iface{types.Typ[types.String], "sync: RUnlock of unlocked RWMutex"}})
		}
		m.readers--
		fr.i.sched.yield(fr.th, "RUnlock")
		return nil
	}
	ext[symPkg+".MutexHeld"] = func(fr *frame, args []value) value {
		p := args[0].(iface).v
		m := getM(fr.i, p)
		return m.locked
	}
	ext[symPkg+".MutexReaders"] = func(fr *frame, args []value) value {
		p := args[0].(iface).v
		m := getM(fr.i, p)
		return m.readers
	}
	// WaitGroup
	type wgstate struct{ n int }
	getWG := func(i *interpreter, p value) *wgstate {
		key := p.(*value)
		if m, ok := i.side[key]; ok {
			return m.(*wgstate)
		}
		m := &wgstate{}
		i.side[key] = m
		return m
	}
	ext["(*sync.WaitGroup).Add"] = func(fr *frame, args []value) value {
		w := getWG(fr.i, args[0])
		w.n += int(asInt64(args[1]))
		if w.n < 0 {
			panic(targetPanic{iface{types.Typ[types.String], "sync: negative WaitGroup counter"}})
		}
		return nil
	}
	ext["(*sync.WaitGroup).Done"] = func(fr *frame, args []value) value {
		w := getWG(fr.i, args[0])
		w.n--
		if w.n < 0 {
			panic(targetPanic{iface{types.Typ[types.String], "sync: negative WaitGroup counter"}})
		}
		fr.i.sched.yield(fr.th, "wg.Done")
		return nil
	}
	ext["(*sync.WaitGroup).Wait"] = func(fr *frame, args []value) value {
		w := getWG(fr.i, args[0])
		fr.i.sched.yield(fr.th, "wg.Wait")
		if w.n > 0 {
			fr.th.blocked = func() bool { return w.n == 0 }
			fr.i.sched.yield(fr.th, "wg.Wait(blocked)")
		}
		return nil
	}
	ext["(*sync.Once).Do"] = func(fr *frame, args []value) value {
		key := args[0].(*value)
		type onceState struct{ done, running bool }
		var o *onceState
		if m, ok := fr.i.side[key]; ok {
			o = m.(*onceState)
		} else {
			o = &onceState{}
			fr.i.side[key] = o
		}
		fr.i.sched.yield(fr.th, "Once.Do")
		if o.done {
			return nil
		}
		if o.running {
			fr.th.blocked = func() bool { return o.done }
			fr.i.sched.yield(fr.th, "Once.Do(blocked)")
			return nil
		}
		o.running = true
		call(fr.i, fr, token.NoPos, args[1], nil)
		o.done = true
		return nil
	}

	// sync.Pool: no pooling, Get always builds a new value
	ext["(*sync.Pool).Get"] = func(fr *frame, args []value) value {
		st := (*args[0].(*value)).(structure)
		newFn := st[len(st)-1]
		switch f := newFn.(type) {
		case *ssa.Function:
			if f == nil {
				return iface{}
			}
		}
		return call(fr.i, fr, token.NoPos, newFn, nil)
	}
	ext["(*sync.Pool).Put"] = func(fr *frame, args []value) value { return nil }

	// sync.Map: an association list per receiver (keys compared as interface values; a key
	// comparison that is not concrete is decided by the solver through truth())
	type smEntry struct{ k, v iface }
	type smState struct{ ents []smEntry }
	getSM := func(i *interpreter, p value) *smState {
		key := p.(*value)
		if m, ok := i.side[key]; ok {
			return m.(*smState)
		}
		m := &smState{}
		i.side[key] = m
		return m
	}
	smFind := func(fr *frame, m *smState, k iface) int {
		for n, e := range m.ents {
			if fr.i.truth(svOrConst(fr.i.equalsT(nil, e.k, k), types.Bool)) {
				return n
			}
		}
		return -1
	}
	ext["(*sync.Map).Load"] = func(fr *frame, args []value) value {
		m := getSM(fr.i, args[0])
		if n := smFind(fr, m, args[1].(iface)); n >= 0 {
			return tuple{m.ents[n].v, true}
		}
		return tuple{iface{}, false}
	}
	ext["(*sync.Map).Store"] = func(fr *frame, args []value) value {
		m := getSM(fr.i, args[0])
		if n := smFind(fr, m, args[1].(iface)); n >= 0 {
			m.ents[n].v = args[2].(iface)
		} else {
			m.ents = append(m.ents, smEntry{args[1].(iface), args[2].(iface)})
		}
		return nil
	}
	ext["(*sync.Map).LoadOrStore"] = func(fr *frame, args []value) value {
		m := getSM(fr.i, args[0])
		if n := smFind(fr, m, args[1].(iface)); n >= 0 {
			return tuple{m.ents[n].v, true}
		}
		m.ents = append(m.ents, smEntry{args[1].(iface), args[2].(iface)})
		return tuple{args[2].(iface), false}
	}
	ext["(*sync.Map).LoadAndDelete"] = func(fr *frame, args []value) value {
		m := getSM(fr.i, args[0])
		if n := smFind(fr, m, args[1].(iface)); n >= 0 {
			v := m.ents[n].v
			m.ents = append(m.ents[:n:n], m.ents[n+1:]...)
			return tuple{v, true}
		}
		return tuple{iface{}, false}
	}
	ext["(*sync.Map).Delete"] = func(fr *frame, args []value) value {
		m := getSM(fr.i, args[0])
		if n := smFind(fr, m, args[1].(iface)); n >= 0 {
			m.ents = append(m.ents[:n:n], m.ents[n+1:]...)
		}
		return nil
	}
	ext["(*sync.Map).Range"] = func(fr *frame, args []value) value {
		m := getSM(fr.i, args[0])
		for _, e := range append([]smEntry(nil), m.ents...) {
			if !fr.i.truth(call(fr.i, fr, token.NoPos, args[1], []value{e.k, e.v})) {
				break
			}
		}
		return nil
	}

	// errors
	ext["errors.Is"] = func(fr *frame, args []value) value {
		return fr.i.errorsIs(fr, args[0].(iface), args[1].(iface))
	}
	ext["errors.As"] = func(fr *frame, args []value) value {
		return fr.i.errorsAs(fr, args[0].(iface), args[1].(iface))
	}
	ext["(syscall.Errno).Error"] = func(fr *frame, args []value) value {
		if _, ok := args[0].(*SV); ok {
			return "errno <symbolic>"
		}
		return fmt.Sprintf("errno %d", asInt64(args[0]))
	}
	ext["(syscall.Signal).String"] = func(fr *frame, args []value) value {
		if _, ok := args[0].(*SV); ok {
			return "signal <symbolic>"
		}
		return fmt.Sprintf("signal %d", asInt64(args[0]))
	}

	// fmt
	ext["fmt.Sprintf"] = func(fr *frame, args []value) value {
		return fr.i.sprintf(fr, str(args[0]), args[1].([]value))
	}
	ext["fmt.Errorf"] = func(fr *frame, args []value) value {
		return fr.i.errorf(fr, str(args[0]), args[1].([]value))
	}
	ext["fmt.Sprint"] = func(fr *frame, args []value) value {
		return fr.i.sprintArgs(fr, args[0].([]value))
	}
	ext["fmt.Sprintln"] = func(fr *frame, args []value) value {
		var parts []string
		for _, a := range args[0].([]value) {
			parts = append(parts, fr.i.sprintv(fr, a, 'v'))
		}
		return strings.Join(parts, " ") + "\n"
	}
	for _, n := range []string{"fmt.Printf", "fmt.Println", "fmt.Print"} {
		ext[n] = func(fr *frame, args []value) value { return tuple{0, iface{}} }
	}
	fwrite := func(fr *frame, w value, s string) value {
		wi, ok := w.(iface)
		if !ok || wi.t == nil {
			return tuple{0, iface{}}
		}
		if m := fr.i.methodOf(wi.t, "Write"); m != nil {
			b := make([]value, len(s))
			for k := 0; k < len(s); k++ {
				b[k] = s[k]
			}
			return call(fr.i, fr, token.NoPos, m, []value{wi.v, b})
		}
		return tuple{len(s), iface{}}
	}
	ext["fmt.Fprintf"] = func(fr *frame, args []value) value {
		return fwrite(fr, args[0], fr.i.sprintf(fr, str(args[1]), args[2].([]value)))
	}
	ext["fmt.Fprint"] = func(fr *frame, args []value) value {
		return fwrite(fr, args[0], fr.i.sprintArgs(fr, args[1].([]value)))
	}
	ext["fmt.Fprintln"] = func(fr *frame, args []value) value {
		var parts []string
		for _, a := range args[1].([]value) {
			parts = append(parts, fr.i.sprintv(fr, a, 'v'))
		}
		return fwrite(fr, args[0], strings.Join(parts, " ")+"\n")
	}

	// unsafe builtins are handled in callBuiltin (ops.go) via name; see unsafeBuiltin
}

type snapshot struct{ v value }

// restoreInto copies the snapshot into *dst if the shapes agree (prefix of a struct allowed).
func restoreInto(dst *value, src value) value {
	switch d := (*dst).(type) {
	case structure:
		s, ok := src.(structure)
		if !ok {
			// scalar into first field
			if len(d) > 0 {
				d[0] = src
				return true
			}
			return false
		}
		for k := range d {
			if k < len(s) {
				d[k] = copyVal(s[k])
			}
		}
		return true
	case array:
		s, ok := src.(array)
		if !ok {
			return false
		}
		for k := range d {
			if k < len(s) {
				d[k] = copyVal(s[k])
			}
		}
		return true
	default:
		switch s := src.(type) {
		case structure:
			if len(s) > 0 {
				*dst = s[0]
				return true
			}
			return false
		case array:
			return false
		}
		*dst = src
		return true
	}
}

func seqOf(v value) symstr {
	switch v := v.(type) {
	case []value:
		return symstr(v)
	case string, symstr:
		return toSymstr(v)
	}
	panic(fmt.Sprintf("seqOf: %T", v))
}

func (i *interpreter) indexByte(s value, c value, last bool) value {
	seq := seqOf(s)
	ct := byteTerm(c)
	if last {
		for k := len(seq) - 1; k >= 0; k-- {
			if i.decide(mkCmp("=", byteTerm(seq[k]), ct)) {
				return k
			}
		}
		return -1
	}
	for k := 0; k < len(seq); k++ {
		if i.decide(mkCmp("=", byteTerm(seq[k]), ct)) {
			return k
		}
	}
	return -1
}

func (i *interpreter) indexSeq(a, b symstr) value {
	if len(b) == 0 {
		return 0
	}
	for k := 0; k+len(b) <= len(a); k++ {
		if i.decide(strEqT(a[k:k+len(b)], b)) {
			return k
		}
	}
	return -1
}

// concStr concretises every symbolic byte of a string.
func (i *interpreter) concStr(v value) value {
	s, ok := v.(symstr)
	if !ok {
		return v
	}
	b := make([]byte, len(s))
	for k, e := range s {
		switch e := e.(type) {
		case uint8:
			b[k] = e
		case *SV:
			b[k] = byte(i.concretize(e.t, "string byte"))
		}
	}
	return string(b)
}

// ---------------------------------------------------------------------------
// errors.Is / errors.As (reflect-free model)

func (i *interpreter) methodOf(t types.Type, name string) *ssa.Function {
	ms := i.prog.MethodSets.MethodSet(t)
	for k := 0; k < ms.Len(); k++ {
		sel := ms.At(k)
		if sel.Obj().Name() == name {
			return i.prog.MethodValue(sel)
		}
	}
	return nil
}

func (i *interpreter) tryErrorString(e iface) (string, bool) {
	if e.t == nil {
		return "<nil>", true
	}
	m := i.methodOf(e.t, "Error")
	if m == nil {
		m = i.methodOf(e.t, "String")
	}
	if m == nil {
		return "", false
	}
	var res value
	func() {
		defer func() {
			if p := recover(); p != nil {
				if isEnginePanic(p) {
					panic(p)
				}
				res = fmt.Sprintf("<panic in Error(): %v>", p)
			}
		}()
		res = call(i, &frame{i: i, th: i.sched.cur}, token.NoPos, m, []value{e.v})
	}()
	return str(res), true
}

func comparableType(t types.Type) bool {
	return types.Comparable(t)
}

func (i *interpreter) errorsIs(fr *frame, err, target iface) value {
	if err.t == nil || target.t == nil {
		return err.t == nil && target.t == nil
	}
	for depth := 0; depth < 32; depth++ {
		if sameType(err.t, target.t) && comparableType(err.t) {
			if i.truth(svOrConst(i.equalsT(err.t, err.v, target.v), types.Bool)) {
				return true
			}
		}
		if m := i.methodOf(err.t, "Is"); m != nil && m.Signature.Params().Len() == 1 {
			if i.truth(call(i, fr, token.NoPos, m, []value{err.v, target})) {
				return true
			}
		}
		m := i.methodOf(err.t, "Unwrap")
		if m == nil {
			return false
		}
		res := m.Signature.Results()
		if res.Len() != 1 {
			return false
		}
		r := call(i, fr, token.NoPos, m, []value{err.v})
		switch r := r.(type) {
		case iface:
			if r.t == nil {
				return false
			}
			err = r
		case []value:
			for _, e := range r {
				if ei := e.(iface); ei.t != nil && i.truth(i.errorsIs(fr, ei, target)) {
					return true
				}
			}
			return false
		default:
			return false
		}
	}
	return false
}

func (i *interpreter) errorsAs(fr *frame, err iface, target iface) value {
	if target.t == nil {
		panic(targetPanic{iface{types.Typ[types.String], "errors: target cannot be nil"}})
	}
	pt, ok := target.t.Underlying().(*types.Pointer)
	if !ok {
		panic(targetPanic{iface{types.Typ[types.String], "errors: target must be a non-nil pointer"}})
	}
	elem := pt.Elem()
	dst := target.v.(*value)
	for depth := 0; depth < 32 && err.t != nil; depth++ {
		if _, isIface := elem.Underlying().(*types.Interface); isIface {
			if types.AssignableTo(err.t, elem) {
				*dst = err
				return true
			}
		} else if types.Identical(err.t, elem) {
			*dst = err.v
			return true
		}
		m := i.methodOf(err.t, "Unwrap")
		if m == nil {
			return false
		}
		r := call(i, fr, token.NoPos, m, []value{err.v})
		ri, ok := r.(iface)
		if !ok {
			return false
		}
		err = ri
	}
	return false
}

// ---------------------------------------------------------------------------
// fmt model

func (i *interpreter) sprint(v value) string {
	if itf, ok := v.(iface); ok {
		return i.sprintv(nil, itf, 'v')
	}
	return toString(v)
}

func (i *interpreter) sprintv(fr *frame, a value, verb rune) string {
	itf, ok := a.(iface)
	if !ok {
		return toString(a)
	}
	if itf.t == nil {
		return "<nil>"
	}
	if verb == 'v' || verb == 's' || verb == 'q' || verb == 'w' {
		if i.methodOf(itf.t, "Error") != nil || i.methodOf(itf.t, "String") != nil {
			if p, isPtr := itf.v.(*value); !isPtr || p != nil {
				if s, ok := i.tryErrorString(itf); ok {
					if verb == 'q' {
						return fmt.Sprintf("%q", s)
					}
					return s
				}
			}
		}
	}
	switch v := itf.v.(type) {
	case string:
		switch verb {
		case 'q':
			return fmt.Sprintf("%q", v)
		case 'x':
			return fmt.Sprintf("%x", v)
		}
		return v
	case symstr:
		return toString(v)
	case *SV:
		return "<sym>"
	case bool, float32, float64:
		return fmt.Sprintf("%v", v)
	case []value:
		var parts []string
		for _, e := range v {
			parts = append(parts, toString(e))
		}
		return "[" + strings.Join(parts, " ") + "]"
	}
	if _, _, ok := intBits(itf.v); ok {
		switch verb {
		case 'd', 'v', 's', 'w':
			return fmt.Sprintf("%d", itf.v)
		case 'x':
			return fmt.Sprintf("%x", itf.v)
		case 'o':
			return fmt.Sprintf("%o", itf.v)
		case 'c':
			return fmt.Sprintf("%c", itf.v)
		case 'q':
			return fmt.Sprintf("%q", itf.v)
		}
		return fmt.Sprintf("%d", itf.v)
	}
	return toString(itf.v)
}

// sprintf formats with a reduced verb set; flags/width are parsed and ignored
// except for zero padding of integers.
func (i *interpreter) sprintf(fr *frame, format string, args []value) string {
	s, _ := i.format(fr, format, args)
	return s
}

func (i *interpreter) format(fr *frame, format string, args []value) (string, []iface) {
	var sb strings.Builder
	var wrapped []iface
	ai := 0
	for k := 0; k < len(format); k++ {
		c := format[k]
		if c != '%' {
			sb.WriteByte(c)
			continue
		}
		k++
		if k >= len(format) {
			sb.WriteString("%!(NOVERB)")
			break
		}
		// flags, width, precision
		start := k
		for k < len(format) && strings.IndexByte("+-# 0123456789.*", format[k]) >= 0 {
			k++
		}
		flags := format[start:k]
		if k >= len(format) {
			break
		}
		verb := rune(format[k])
		if verb == '%' {
			sb.WriteByte('%')
			continue
		}
		if ai >= len(args) {
			sb.WriteString("%!" + string(verb) + "(MISSING)")
			continue
		}
		a := args[ai]
		ai++
		if verb == 'w' {
			if itf, ok := a.(iface); ok {
				wrapped = append(wrapped, itf)
			}
		}
		out := i.sprintv(fr, a, verb)
		if itf, ok := a.(iface); ok && itf.t != nil && flags != "" {
			if i.methodOf(itf.t, "Error") == nil && i.methodOf(itf.t, "String") == nil {
				switch bv := itf.v.(type) {
				case bool, int, int8, int16, int32, int64, uint, uint8, uint16, uint32, uint64, uintptr, float32, float64, string:
					out = fmt.Sprintf("%"+flags+string(verb), bv)
					flags = ""
				}
			}
		}
		if verb == 'T' {
			if itf, ok := a.(iface); ok && itf.t != nil {
				out = itf.t.String()
			}
		}
		// zero/space padding for simple widths
		if flags != "" {
			w := 0
			zero := false
			for fi, fc := range flags {
				if fc == '0' && fi == 0 {
					zero = true
				} else if fc >= '0' && fc <= '9' {
					w = w*10 + int(fc-'0')
				} else if fc == '.' {
					break
				}
			}
			for len(out) < w {
				if zero {
					out = "0" + out
				} else {
					out = " " + out
				}
			}
		}
		sb.WriteString(out)
	}
	return sb.String(), wrapped
}

// errorf builds an error value like fmt.Errorf (keeps the %w operand).
func (i *interpreter) errorf(fr *frame, format string, args []value) value {
	msg, wrapped := i.format(fr, format, args)
	fmtPkg := i.prog.ImportedPackage("fmt")
	if len(wrapped) >= 1 && fmtPkg != nil {
		if tn := fmtPkg.Type("wrapError"); tn != nil {
			cell := value(structure{msg, wrapped[0]})
			return iface{t: types.NewPointer(tn.Type()), v: &cell}
		}
	}
	errPkg := i.prog.ImportedPackage("errors")
	if errPkg != nil {
		if tn := errPkg.Type("errorString"); tn != nil {
			cell := value(structure{msg})
			return iface{t: types.NewPointer(tn.Type()), v: &cell}
		}
	}
	panic(engineError{"errorf: errors package not loaded"})
}

func sortedKeys(m map[string]int) []string {
	var r []string
	for k := range m {
		r = append(r, k)
	}
	sort.Strings(r)
	return r
}

// sprintArgs implements fmt.Sprint's spacing rule: a space is added between operands when
// neither is a string.
func (i *interpreter) sprintArgs(fr *frame, args []value) string {
	var sb strings.Builder
	prevString := false
	for k, a := range args {
		isString := false
		if itf, ok := a.(iface); ok {
			switch itf.v.(type) {
			case string, symstr:
				if itf.t != nil {
					if b, ok := itf.t.Underlying().(*types.Basic); ok && b.Kind() == types.String {
						isString = true
					}
				}
			}
		}
		if k > 0 && !isString && !prevString {
			sb.WriteByte(' ')
		}
		sb.WriteString(i.sprintv(fr, a, 'v'))
		prevString = isString
	}
	return sb.String()
}
