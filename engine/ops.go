// Derived from golang.org/x/tools/go/ssa/interp (BSD-style license, The Go Authors).

package main

import (
	"fmt"
	"go/constant"
	"go/token"
	"go/types"
	"math"
	"unicode/utf8"
	"unsafe"

	"golang.org/x/tools/go/ssa"
)

// If the target program panics, the interpreter panics with this type.
type targetPanic struct {
	v value
}

func (p targetPanic) String() string {
	return toString(p.v)
}

// runtimePanic is a Go run-time error raised by the target program
// (index out of range, nil dereference, failed type assertion ...).
type runtimePanic struct {
	msg string
}

func (p runtimePanic) Error() string { return "runtime error: " + p.msg }

// engineError: the engine cannot continue this path (unsupported feature, budget).
type engineError struct {
	msg string
}

// abortPath silently ends the current path (infeasible / assumption false / exit).
type abortPath struct {
	reason string
}

func unsupported(format string, args ...interface{}) {
	panic(engineError{"unsupported: " + fmt.Sprintf(format, args...)})
}

func mustDeref(t types.Type) types.Type {
	if p, ok := t.Underlying().(*types.Pointer); ok {
		return p.Elem()
	}
	panic(fmt.Sprintf("mustDeref: %s is not a pointer", t))
}

func basicKind(t types.Type) (types.BasicKind, bool) {
	if b, ok := t.Underlying().(*types.Basic); ok {
		k := b.Kind()
		switch k {
		case types.UntypedInt:
			k = types.Int
		case types.UntypedRune:
			k = types.Int32
		case types.UntypedBool:
			k = types.Bool
		case types.UntypedFloat:
			k = types.Float64
		case types.UntypedString:
			k = types.String
		}
		return k, true
	}
	return 0, false
}

// kindInfo returns width and signedness of an integer kind.
func kindInfo(k types.BasicKind) (w int, signed bool, ok bool) {
	switch k {
	case types.Int, types.Int64:
		return 64, true, true
	case types.Int8:
		return 8, true, true
	case types.Int16:
		return 16, true, true
	case types.Int32:
		return 32, true, true
	case types.Uint, types.Uint64, types.Uintptr:
		return 64, false, true
	case types.Uint8:
		return 8, false, true
	case types.Uint16:
		return 16, false, true
	case types.Uint32:
		return 32, false, true
	}
	return 0, false, false
}

// intBits returns the bit pattern of a concrete integer value.
func intBits(x value) (bits uint64, k types.BasicKind, ok bool) {
	switch x := x.(type) {
	case int:
		return uint64(x), types.Int, true
	case int8:
		return uint64(x), types.Int8, true
	case int16:
		return uint64(x), types.Int16, true
	case int32:
		return uint64(x), types.Int32, true
	case int64:
		return uint64(x), types.Int64, true
	case uint:
		return uint64(x), types.Uint, true
	case uint8:
		return uint64(x), types.Uint8, true
	case uint16:
		return uint64(x), types.Uint16, true
	case uint32:
		return uint64(x), types.Uint32, true
	case uint64:
		return x, types.Uint64, true
	case uintptr:
		return uint64(x), types.Uintptr, true
	}
	return 0, 0, false
}

// mkInt builds the concrete value of integer kind k with the given bits.
func mkInt(k types.BasicKind, bits uint64) value {
	switch k {
	case types.Int:
		return int(bits)
	case types.Int8:
		return int8(bits)
	case types.Int16:
		return int16(bits)
	case types.Int32:
		return int32(bits)
	case types.Int64:
		return int64(bits)
	case types.Uint:
		return uint(bits)
	case types.Uint8:
		return uint8(bits)
	case types.Uint16:
		return uint16(bits)
	case types.Uint32:
		return uint32(bits)
	case types.Uint64:
		return uint64(bits)
	case types.Uintptr:
		return uintptr(bits)
	}
	panic(fmt.Sprintf("mkInt: kind %v", k))
}

// svOrConst wraps a term: constants become concrete values of kind k.
func svOrConst(t *Term, k types.BasicKind) value {
	if k == types.Bool || t.w == 0 {
		if t == tTrue {
			return true
		}
		if t == tFalse {
			return false
		}
		return &SV{t}
	}
	if t.isConst() {
		return mkInt(k, t.cval)
	}
	return &SV{t}
}

// toTerm converts a scalar value to a term of width w (0 = Bool).
func (i *interpreter) toTerm(x value, w int) *Term {
	switch x := x.(type) {
	case *SV:
		if x.t.w != w {
			panic(fmt.Sprintf("toTerm: width %d, want %d (%s)", x.t.w, w, x.t))
		}
		return x.t
	case bool:
		if w != 0 {
			panic("toTerm: bool with width")
		}
		return mkBool(x)
	case ptrTok:
		// an address token used as a number: only null-ness is known
		if x.p == nil {
			return mkConst(w, uint64(x.off))
		}
		unsupported("arithmetic on pointer token")
	}
	if bits, _, ok := intBits(x); ok {
		return mkConst(w, bits)
	}
	panic(fmt.Sprintf("toTerm: %T", x))
}

// constValue returns the value of the constant with the
// dynamic type tag appropriate for c.Type().
func constValue(c *ssa.Const) value {
	if c.Value == nil {
		return zero(c.Type()) // typed zero
	}
	if t, ok := c.Type().Underlying().(*types.Basic); ok {
		switch t.Kind() {
		case types.Bool, types.UntypedBool:
			return constant.BoolVal(c.Value)
		case types.Int, types.UntypedInt:
			return int(c.Int64())
		case types.Int8:
			return int8(c.Int64())
		case types.Int16:
			return int16(c.Int64())
		case types.Int32, types.UntypedRune:
			return int32(c.Int64())
		case types.Int64:
			return c.Int64()
		case types.Uint:
			return uint(c.Uint64())
		case types.Uint8:
			return uint8(c.Uint64())
		case types.Uint16:
			return uint16(c.Uint64())
		case types.Uint32:
			return uint32(c.Uint64())
		case types.Uint64:
			return c.Uint64()
		case types.Uintptr:
			return uintptr(c.Uint64())
		case types.Float32:
			return float32(c.Float64())
		case types.Float64, types.UntypedFloat:
			return c.Float64()
		case types.Complex64:
			return complex64(c.Complex128())
		case types.Complex128, types.UntypedComplex:
			return c.Complex128()
		case types.String, types.UntypedString:
			if c.Value.Kind() == constant.String {
				return constant.StringVal(c.Value)
			}
			return string(rune(c.Int64()))
		}
	}
	panic(fmt.Sprintf("constValue: %s", c))
}

// asInt64 converts a concrete integer x to an int64.
func asInt64(x value) int64 {
	if bits, k, ok := intBits(x); ok {
		w, signed, _ := kindInfo(k)
		if signed {
			return sx(bits, w)
		}
		return int64(bits)
	}
	panic(fmt.Sprintf("cannot convert %T to int64", x))
}

// concInt returns x as a concrete int64, concretising a symbolic value by forking.
func (i *interpreter) concInt(x value, t types.Type, what string) int64 {
	if sv, ok := x.(*SV); ok {
		k, _ := basicKind(t)
		w, signed, _ := kindInfo(k)
		if w == 0 {
			w, signed = sv.t.w, true
		}
		v := i.concretize(sv.t, what)
		if signed {
			return sx(v, w)
		}
		return int64(v)
	}
	return asInt64(x)
}

// zero returns a new "zero" value of the specified type.
func zero(t types.Type) value {
	switch t := t.(type) {
	case *types.Basic:
		if t.Kind() == types.UntypedNil {
			panic("untyped nil has no zero value")
		}
		if t.Info()&types.IsUntyped != 0 {
			t = types.Default(t).(*types.Basic)
		}
		switch t.Kind() {
		case types.Bool:
			return false
		case types.Float32:
			return float32(0)
		case types.Float64:
			return float64(0)
		case types.Complex64:
			return complex64(0)
		case types.Complex128:
			return complex128(0)
		case types.String:
			return ""
		case types.UnsafePointer:
			return unsafe.Pointer(nil)
		default:
			if _, _, ok := kindInfo(t.Kind()); ok {
				return mkInt(t.Kind(), 0)
			}
			panic(fmt.Sprint("zero for unexpected type:", t))
		}
	case *types.Pointer:
		return (*value)(nil)
	case *types.Array:
		a := make(array, t.Len())
		for i := range a {
			a[i] = zero(t.Elem())
		}
		return a
	case *types.Named:
		return zero(t.Underlying())
	case *types.Alias:
		return zero(types.Unalias(t))
	case *types.Interface:
		return iface{} // nil type, methodset and value
	case *types.Slice:
		return []value(nil)
	case *types.Struct:
		s := make(structure, t.NumFields())
		for i := range s {
			s[i] = zero(t.Field(i).Type())
		}
		return s
	case *types.Tuple:
		if t.Len() == 1 {
			return zero(t.At(0).Type())
		}
		s := make(tuple, t.Len())
		for i := range s {
			s[i] = zero(t.At(i).Type())
		}
		return s
	case *types.Chan:
		return (*gochan)(nil)
	case *types.Map:
		return (*gomap)(nil)
	case *types.Signature:
		return (*ssa.Function)(nil)
	case *types.TypeParam:
		panic("zero: type parameter (generic body not instantiated)")
	}
	panic(fmt.Sprint("zero: unexpected ", t))
}

// slice returns x[lo:hi:max].  Any of lo, hi and max may be nil.
func (i *interpreter) slice(instr *ssa.Slice, x, lo, hi, max value) value {
	var Len, Cap int
	switch x := x.(type) {
	case string:
		Len = len(x)
		Cap = Len
	case symstr:
		Len = len(x)
		Cap = Len
	case []value:
		Len = len(x)
		Cap = cap(x)
	case *value: // *array
		if x == nil {
			panic(runtimePanic{"invalid memory address or nil pointer dereference"})
		}
		a := (*x).(array)
		Len = len(a)
		Cap = cap(a)
	}
	intT := types.Typ[types.Int]
	if save := i.ex.concCap; Cap+2 > save && Cap < 4096 {
		i.ex.concCap = Cap + 2
		defer func() { i.ex.concCap = save }()
	}
	l := int64(0)
	if lo != nil {
		l = i.concInt(lo, intT, "slice low bound")
	}
	h := int64(Len)
	if hi != nil {
		h = i.concInt(hi, intT, "slice high bound")
	}
	m := int64(Cap)
	if max != nil {
		m = i.concInt(max, intT, "slice max bound")
	}
	if l < 0 || h < l || m < h || m > int64(Cap) {
		panic(runtimePanic{fmt.Sprintf("slice bounds out of range [%d:%d:%d] with capacity %d", l, h, m, Cap)})
	}
	switch x := x.(type) {
	case string:
		return x[l:h]
	case symstr:
		return normStr(x[l:h:h])
	case []value:
		return x[l:h:m]
	case *value: // *array
		a := (*x).(array)
		return []value(a)[l:h:m]
	}
	panic(fmt.Sprintf("slice: unexpected X type: %T", x))
}

// lookup returns x[idx] where x is a map.
func (i *interpreter) lookup(instr *ssa.Lookup, x, idx value) value {
	switch x := x.(type) {
	case *gomap:
		elemT := instr.X.Type().Underlying().(*types.Map).Elem()
		if v, okT, merged := i.lookupMerged(x, idx, elemT); merged {
			if instr.CommaOk {
				return tuple{v, okT}
			}
			return v
		}
		v, ok := x.lookup(i, idx)
		if !ok {
			v = zero(elemT)
		} else {
			v = copyVal(v)
		}
		if instr.CommaOk {
			v = tuple{v, ok}
		}
		return v
	}
	panic(fmt.Sprintf("unexpected x type in Lookup: %T", x))
}

// lookupMerged handles a lookup with symbolic keys without forking when the element
// type is a scalar: the result is an ite chain over the candidate slots.
func (i *interpreter) lookupMerged(m *gomap, k value, elemT types.Type) (value, value, bool) {
	if m == nil {
		return nil, nil, false
	}
	ek, isBasic := basicKind(elemT)
	if !isBasic {
		return nil, nil, false
	}
	w, _, isInt := kindInfo(ek)
	if !isInt && ek != types.Bool {
		return nil, nil, false
	}
	if ek == types.Bool {
		w = 0
	}
	_, keyNative := nativeKey(k)
	anySym := !keyNative
	if keyNative {
		if _, hit := m.index[func() interface{} { nk, _ := nativeKey(k); return nk }()]; hit {
			return nil, nil, false // plain concrete hit
		}
		for s := range m.keys {
			if !m.dead[s] {
				if _, n := nativeKey(m.keys[s]); !n {
					anySym = true
					break
				}
			}
		}
	}
	if !anySym {
		return nil, nil, false
	}
	res := i.toTerm(zero(elemT), w)
	found := tFalse
	for s := len(m.keys) - 1; s >= 0; s-- {
		if m.dead[s] {
			continue
		}
		if keyNative {
			if _, n := nativeKey(m.keys[s]); n {
				continue // concrete keys differ (no index hit)
			}
		}
		eq := i.equalsT(m.keyType, m.keys[s], k)
		if eq == tFalse {
			continue
		}
		res = mkIte(eq, i.toTerm(m.vals[s], w), res)
		found = mkOr(eq, found)
	}
	return svOrConst(res, ek), svOrConst(found, types.Bool), true
}

var cmpOps = map[token.Token]bool{token.LSS: true, token.LEQ: true, token.GTR: true, token.GEQ: true, token.EQL: true, token.NEQ: true}

// binop implements all arithmetic and logical binary operators.
// t is the static type of x, ty that of y.
func (i *interpreter) binop(op token.Token, t, ty types.Type, x, y value) value {
	if op == token.EQL {
		return i.eqnil(t, x, y)
	}
	if op == token.NEQ {
		r := i.eqnil(t, x, y)
		if b, ok := r.(bool); ok {
			return !b
		}
		return svOrConst(mkNot(r.(*SV).t), types.Bool)
	}
	k, isBasic := basicKind(t)
	if !isBasic {
		panic(fmt.Sprintf("binop %s on non-basic type %s", op, t))
	}
	switch {
	case k == types.String:
		return i.strBinop(op, x, y)
	case k == types.Float32 || k == types.Float64:
		return floatBinop(op, x, y)
	case k == types.Bool:
		// only via AND/OR on untyped bools (rare)
		xt, yt := i.toTerm(x, 0), i.toTerm(y, 0)
		switch op {
		case token.AND, token.LAND:
			return svOrConst(mkAnd(xt, yt), types.Bool)
		case token.OR, token.LOR:
			return svOrConst(mkOr(xt, yt), types.Bool)
		}
	}
	w, signed, ok := kindInfo(k)
	if !ok {
		panic(fmt.Sprintf("binop %s: unsupported kind %v (%T,%T)", op, k, x, y))
	}
	// pointer tokens: only comparisons with 0 handled in eqnil; allow AND/OR etc. to fail loudly
	if pt, ok := x.(ptrTok); ok {
		if yv, ok := y.(uintptr); ok && (op == token.ADD || op == token.SUB) {
			d := int(yv)
			if op == token.SUB {
				d = -d
			}
			return ptrTok{pt.p, pt.off + d}
		}
		if op == token.GTR && y == uintptr(0) {
			return pt.p != nil
		}
		unsupported("binary %s on pointer token", op)
	}
	xs, xsym := x.(*SV)
	ys, ysym := y.(*SV)
	if op == token.SHL || op == token.SHR {
		// shift count has its own type
		ky, _ := basicKind(ty)
		wy, sy, _ := kindInfo(ky)
		if !xsym && !ysym {
			xb, _, _ := intBits(x)
			yb, _, _ := intBits(y)
			if sy && sx(yb, wy) < 0 {
				panic(runtimePanic{"negative shift amount"})
			}
			return mkInt(k, shiftConc(op, xb, yb, w, signed))
		}
		xt := i.toTerm(x, w)
		yt := i.toTerm(y, wy)
		if sy && ysym {
			// negative shift count panics
			if i.decide(mkCmp("bvslt", yt, mkConst(wy, 0))) {
				panic(runtimePanic{"negative shift amount"})
			}
		}
		// bring count to width w, saturating
		var cnt *Term
		if wy > w {
			over := mkNot(mkCmp("bvult", yt, mkConst(wy, uint64(w))))
			cnt = mkIte(over, mkConst(w, uint64(w)), mkExtract(yt, w-1, 0))
		} else {
			cnt = mkZext(yt, w)
		}
		sop := "bvshl"
		if op == token.SHR {
			if signed {
				sop = "bvashr"
			} else {
				sop = "bvlshr"
			}
		}
		return svOrConst(mkBV(sop, xt, cnt), k)
	}
	if !xsym && !ysym {
		xb, _, okx := intBits(x)
		yb, _, oky := intBits(y)
		if !okx || !oky {
			panic(fmt.Sprintf("invalid binary op: %T %s %T", x, op, y))
		}
		return concBinop(op, k, w, signed, xb, yb)
	}
	_ = xs
	_ = ys
	xt, yt := i.toTerm(x, w), i.toTerm(y, w)
	switch op {
	case token.ADD:
		return svOrConst(mkBV("bvadd", xt, yt), k)
	case token.SUB:
		return svOrConst(mkBV("bvsub", xt, yt), k)
	case token.MUL:
		return svOrConst(mkBV("bvmul", xt, yt), k)
	case token.QUO, token.REM:
		if i.decide(mkCmp("=", yt, mkConst(w, 0))) {
			panic(runtimePanic{"integer divide by zero"})
		}
		var sop string
		switch {
		case op == token.QUO && signed:
			sop = "bvsdiv"
		case op == token.QUO:
			sop = "bvudiv"
		case signed:
			sop = "bvsrem"
		default:
			sop = "bvurem"
		}
		return svOrConst(mkBV(sop, xt, yt), k)
	case token.AND:
		return svOrConst(mkBV("bvand", xt, yt), k)
	case token.OR:
		return svOrConst(mkBV("bvor", xt, yt), k)
	case token.XOR:
		return svOrConst(mkBV("bvxor", xt, yt), k)
	case token.AND_NOT:
		return svOrConst(mkBV("bvand", xt, mkBVNot(yt)), k)
	case token.LSS:
		if signed {
			return svOrConst(mkCmp("bvslt", xt, yt), types.Bool)
		}
		return svOrConst(mkCmp("bvult", xt, yt), types.Bool)
	case token.LEQ:
		if signed {
			return svOrConst(mkCmp("bvsle", xt, yt), types.Bool)
		}
		return svOrConst(mkCmp("bvule", xt, yt), types.Bool)
	case token.GTR:
		if signed {
			return svOrConst(mkCmp("bvslt", yt, xt), types.Bool)
		}
		return svOrConst(mkCmp("bvult", yt, xt), types.Bool)
	case token.GEQ:
		if signed {
			return svOrConst(mkCmp("bvsle", yt, xt), types.Bool)
		}
		return svOrConst(mkCmp("bvule", yt, xt), types.Bool)
	}
	panic(fmt.Sprintf("invalid binary op: %T %s %T", x, op, y))
}

func shiftConc(op token.Token, xb, yb uint64, w int, signed bool) uint64 {
	if op == token.SHL {
		if yb >= uint64(w) {
			return 0
		}
		return xb << yb
	}
	if signed {
		s := sx(xb, w)
		if yb >= uint64(w) {
			if s < 0 {
				return ^uint64(0)
			}
			return 0
		}
		return uint64(s >> yb)
	}
	xb &= mask(w)
	if yb >= uint64(w) {
		return 0
	}
	return xb >> yb
}

func concBinop(op token.Token, k types.BasicKind, w int, signed bool, xb, yb uint64) value {
	xs, ys := sx(xb, w), sx(yb, w)
	xu, yu := xb&mask(w), yb&mask(w)
	switch op {
	case token.ADD:
		return mkInt(k, xb+yb)
	case token.SUB:
		return mkInt(k, xb-yb)
	case token.MUL:
		return mkInt(k, xb*yb)
	case token.QUO:
		if yu == 0 {
			panic(runtimePanic{"integer divide by zero"})
		}
		if signed {
			if ys == -1 {
				return mkInt(k, uint64(-xs))
			}
			return mkInt(k, uint64(xs/ys))
		}
		return mkInt(k, xu/yu)
	case token.REM:
		if yu == 0 {
			panic(runtimePanic{"integer divide by zero"})
		}
		if signed {
			if ys == -1 {
				return mkInt(k, 0)
			}
			return mkInt(k, uint64(xs%ys))
		}
		return mkInt(k, xu%yu)
	case token.AND:
		return mkInt(k, xb&yb)
	case token.OR:
		return mkInt(k, xb|yb)
	case token.XOR:
		return mkInt(k, xb^yb)
	case token.AND_NOT:
		return mkInt(k, xb&^yb)
	case token.LSS:
		if signed {
			return xs < ys
		}
		return xu < yu
	case token.LEQ:
		if signed {
			return xs <= ys
		}
		return xu <= yu
	case token.GTR:
		if signed {
			return xs > ys
		}
		return xu > yu
	case token.GEQ:
		if signed {
			return xs >= ys
		}
		return xu >= yu
	}
	panic(fmt.Sprintf("concBinop: %s", op))
}

func floatBinop(op token.Token, x, y value) value {
	switch x := x.(type) {
	case float64:
		y := y.(float64)
		switch op {
		case token.ADD:
			return x + y
		case token.SUB:
			return x - y
		case token.MUL:
			return x * y
		case token.QUO:
			return x / y
		case token.LSS:
			return x < y
		case token.LEQ:
			return x <= y
		case token.GTR:
			return x > y
		case token.GEQ:
			return x >= y
		}
	case float32:
		y := y.(float32)
		switch op {
		case token.ADD:
			return x + y
		case token.SUB:
			return x - y
		case token.MUL:
			return x * y
		case token.QUO:
			return x / y
		case token.LSS:
			return x < y
		case token.LEQ:
			return x <= y
		case token.GTR:
			return x > y
		case token.GEQ:
			return x >= y
		}
	}
	unsupported("float op %s on %T", op, x)
	return nil
}

func (i *interpreter) strBinop(op token.Token, x, y value) value {
	xs, xok := x.(string)
	ys, yok := y.(string)
	if xok && yok {
		switch op {
		case token.ADD:
			return xs + ys
		case token.LSS:
			return xs < ys
		case token.LEQ:
			return xs <= ys
		case token.GTR:
			return xs > ys
		case token.GEQ:
			return xs >= ys
		}
	}
	if op == token.ADD {
		a, b := toSymstr(x), toSymstr(y)
		r := make(symstr, 0, len(a)+len(b))
		r = append(r, a...)
		r = append(r, b...)
		return normStr(r)
	}
	// lexicographic comparison with symbolic bytes: lt(x,y)
	lt := func(a, b value) *Term {
		// a < b
		la, lb := strLen(a), strLen(b)
		n := la
		if lb < n {
			n = lb
		}
		// build from the end: res = (la < lb) for equal prefix
		res := mkBool(la < lb)
		for k := n - 1; k >= 0; k-- {
			ak, bk := byteTerm(strByte(a, k)), byteTerm(strByte(b, k))
			res = mkIte(mkCmp("bvult", ak, bk), tTrue, mkIte(mkCmp("=", ak, bk), res, tFalse))
		}
		return res
	}
	switch op {
	case token.LSS:
		return svOrConst(lt(x, y), types.Bool)
	case token.GTR:
		return svOrConst(lt(y, x), types.Bool)
	case token.LEQ:
		return svOrConst(mkNot(lt(y, x)), types.Bool)
	case token.GEQ:
		return svOrConst(mkNot(lt(x, y)), types.Bool)
	}
	panic(fmt.Sprintf("invalid string op %s", op))
}

// eqnil returns the comparison x == y using the equivalence relation
// appropriate for type t (bool or *SV).
func (i *interpreter) eqnil(t types.Type, x, y value) value {
	switch t.Underlying().(type) {
	case *types.Map, *types.Signature, *types.Slice:
		// one of the operands must be a literal nil.
		switch x := x.(type) {
		case *gomap:
			return (x != nil) == (y.(*gomap) != nil)
		case *ssa.Function:
			switch y := y.(type) {
			case *ssa.Function:
				return (x != nil) == (y != nil)
			case *closure:
				return x != nil
			}
		case *closure:
			switch y := y.(type) {
			case *ssa.Function:
				return y != nil
			case *closure:
				return x == y
			}
		case []value:
			return (x != nil) == (y.([]value) != nil)
		}
		panic(fmt.Sprintf("eqnil(%s): illegal dynamic type: %T", t, x))
	}
	return svOrConst(i.equalsT(t, x, y), types.Bool)
}

func (i *interpreter) unop(fr *frame, instr *ssa.UnOp, x value) value {
	switch instr.Op {
	case token.ARROW: // receive
		return i.chanRecv(fr, instr, x.(*gochan))
	case token.SUB:
		switch x := x.(type) {
		case *SV:
			k, _ := basicKind(instr.X.Type())
			return svOrConst(mkNeg(x.t), k)
		case float32:
			return -x
		case float64:
			return -x
		}
		if bits, k, ok := intBits(x); ok {
			return mkInt(k, -bits)
		}
	case token.MUL:
		switch p := x.(type) {
		case *value:
			if p == nil {
				panic(runtimePanic{"invalid memory address or nil pointer dereference"})
			}
			if v, ok := i.loadBytes(mustDeref(instr.X.Type()), p); ok {
				return v
			}
			return load(mustDeref(instr.X.Type()), p)
		case rawAddr:
			unsupported("load through foreign address at %s", i.prog.Fset.Position(instr.Pos()))
		}
	case token.NOT:
		switch x := x.(type) {
		case bool:
			return !x
		case *SV:
			return svOrConst(mkNot(x.t), types.Bool)
		}
	case token.XOR:
		if sv, ok := x.(*SV); ok {
			k, _ := basicKind(instr.X.Type())
			return svOrConst(mkBVNot(sv.t), k)
		}
		if bits, k, ok := intBits(x); ok {
			return mkInt(k, ^bits)
		}
	}
	panic(fmt.Sprintf("invalid unary op %s %T", instr.Op, x))
}

// typeAssert checks whether dynamic type of itf is instr.AssertedType.
func typeAssert(i *interpreter, instr *ssa.TypeAssert, itf iface) value {
	var v value
	err := ""
	if itf.t == nil {
		err = fmt.Sprintf("interface conversion: interface is nil, not %s", instr.AssertedType)
	} else if idst, ok := instr.AssertedType.Underlying().(*types.Interface); ok {
		v = itf
		err = checkInterface(i, idst, itf)
	} else if types.Identical(itf.t, instr.AssertedType) {
		v = itf.v // extract value
	} else {
		err = fmt.Sprintf("interface conversion: interface is %s, not %s", itf.t, instr.AssertedType)
	}
	if err != "" {
		if !instr.CommaOk {
			panic(runtimePanic{err})
		}
		return tuple{zero(instr.AssertedType), false}
	}
	if instr.CommaOk {
		return tuple{v, true}
	}
	return v
}

func checkInterface(i *interpreter, itype *types.Interface, x iface) string {
	if meth, _ := types.MissingMethod(x.t, itype, true); meth != nil {
		return fmt.Sprintf("interface conversion: %v is not %v: missing method %s",
			x.t, itype, meth.Name())
	}
	return "" // ok
}

// callBuiltin interprets a call to builtin fn with arguments args.
func (i *interpreter) callBuiltin(caller *frame, callpos token.Pos, fn *ssa.Builtin, args []value) value {
	switch fn.Name() {
	case "append":
		if len(args) == 1 {
			return args[0]
		}
		switch s := args[1].(type) {
		case string, symstr:
			arg0 := args[0].([]value)
			n := strLen(s)
			for k := 0; k < n; k++ {
				arg0 = append(arg0, strByte(s, k))
			}
			return arg0
		}
		src := args[1].([]value)
		dst := args[0].([]value)
		// source and destination may overlap (append(s[:i+1], s[i:]...)): copy first
		tmp := make([]value, len(src))
		for k, e := range src {
			tmp[k] = copyVal(e)
		}
		return append(dst, tmp...)

	case "copy": // copy([]T, []T) int or copy([]byte, string) int
		dst := args[0].([]value)
		switch src := args[1].(type) {
		case string, symstr:
			n := strLen(src)
			if len(dst) < n {
				n = len(dst)
			}
			for k := 0; k < n; k++ {
				dst[k] = strByte(src, k)
			}
			return n
		case []value:
			n := len(src)
			if len(dst) < n {
				n = len(dst)
			}
			tmp := make([]value, n)
			for k := 0; k < n; k++ {
				tmp[k] = copyVal(src[k])
			}
			copy(dst, tmp)
			return n
		}
		panic(fmt.Sprintf("copy: %T", args[1]))

	case "close": // close(chan T)
		i.chanClose(caller, args[0].(*gochan))
		return nil

	case "delete": // delete(map[K]value, K)
		args[0].(*gomap).delete(i, args[1])
		return nil

	case "clear":
		switch m := args[0].(type) {
		case *gomap:
			if m != nil {
				m.keys, m.vals, m.dead, m.n = nil, nil, nil, 0
				m.index = map[interface{}]int{}
			}
		case []value:
			unsupported("clear(slice)")
		}
		return nil

	case "print", "println": // print(any, ...)
		return nil

	case "len":
		switch x := args[0].(type) {
		case string:
			return len(x)
		case symstr:
			return len(x)
		case array:
			return len(x)
		case *value:
			return len((*x).(array))
		case []value:
			return len(x)
		case *gomap:
			return x.len()
		case *gochan:
			if x == nil {
				return 0
			}
			return len(x.buf)
		default:
			panic(fmt.Sprintf("len: illegal operand: %T", x))
		}

	case "cap":
		switch x := args[0].(type) {
		case array:
			return cap(x)
		case *value:
			return cap((*x).(array))
		case []value:
			return cap(x)
		case *gochan:
			if x == nil {
				return 0
			}
			return x.cap
		default:
			panic(fmt.Sprintf("cap: illegal operand: %T", x))
		}

	case "min", "max":
		sig := fn.Type().(*types.Signature)
		t := sig.Params().At(0).Type()
		x := args[0]
		for _, y := range args[1:] {
			op := token.LSS
			if fn.Name() == "max" {
				op = token.GTR
			}
			c := i.binop(op, t, t, y, x)
			switch c := c.(type) {
			case bool:
				if c {
					x = y
				}
			case *SV:
				k, _ := basicKind(t)
				w, _, _ := kindInfo(k)
				x = svOrConst(mkIte(c.t, i.toTerm(y, w), i.toTerm(x, w)), k)
			}
		}
		return x

	case "panic":
		panic(targetPanic{args[0]})

	case "recover":
		return doRecover(caller)

	case "ssa:wrapnilchk":
		recv := args[0]
		if recv.(*value) == nil {
			recvType := args[1]
			methodName := args[2]
			panic(runtimePanic{fmt.Sprintf("value method (%s).%s called using nil *%s pointer",
				recvType, methodName, recvType)})
		}
		return recv

	case "ssa:deferstack":
		return &caller.defers

	case "SliceData":
		s := args[0].([]value)
		if cap(s) == 0 {
			return (*value)(nil)
		}
		return &s[:1][0]
	case "Slice":
		p := args[0].(*value)
		n := int(asInt64(args[1]))
		if p == nil {
			return []value(nil)
		}
		return unsafe.Slice(p, n)
	case "String":
		p := args[0].(*value)
		n := int(asInt64(args[1]))
		if p == nil || n == 0 {
			return ""
		}
		r := make(symstr, n)
		copy(r, unsafe.Slice(p, n))
		return normStr(r)
	case "StringData":
		s := toSymstr(args[0])
		if len(s) == 0 {
			return (*value)(nil)
		}
		b := make([]value, len(s))
		copy(b, s)
		return &b[0]
	}

	panic("unknown built-in: " + fn.Name())
}

type symstrIter struct {
	i   *interpreter
	s   symstr
	pos int
}

func (it *symstrIter) next() tuple {
	if it.pos >= len(it.s) {
		return tuple{false, nil, nil}
	}
	b := it.s[it.pos]
	if sv, ok := b.(*SV); ok {
		if it.i.decide(mkCmp("bvult", sv.t, mkConst(8, 0x80))) {
			idx := it.pos
			it.pos++
			return tuple{true, idx, svOrConst(mkZext(sv.t, 32), types.Int32)}
		}
		// non-ASCII lead byte: concretise up to 4 bytes
		var buf []byte
		for k := it.pos; k < len(it.s) && k < it.pos+4; k++ {
			switch e := it.s[k].(type) {
			case uint8:
				buf = append(buf, e)
			case *SV:
				buf = append(buf, byte(it.i.concretize(e.t, "utf8 byte")))
			}
		}
		r, n := utf8.DecodeRune(buf)
		idx := it.pos
		it.pos += n
		return tuple{true, idx, r}
	}
	c := b.(uint8)
	if c < 0x80 {
		idx := it.pos
		it.pos++
		return tuple{true, idx, rune(c)}
	}
	var buf []byte
	for k := it.pos; k < len(it.s) && k < it.pos+4; k++ {
		switch e := it.s[k].(type) {
		case uint8:
			buf = append(buf, e)
		case *SV:
			buf = append(buf, byte(it.i.concretize(e.t, "utf8 byte")))
		}
	}
	r, n := utf8.DecodeRune(buf)
	idx := it.pos
	it.pos += n
	return tuple{true, idx, r}
}

func (i *interpreter) rangeIter(x value, t types.Type) iter {
	switch x := x.(type) {
	case *gomap:
		return &mapIter{m: x}
	case string:
		return &stringIter{s: x}
	case symstr:
		return &symstrIter{i: i, s: x}
	}
	panic(fmt.Sprintf("cannot range over %T", x))
}

// conv converts the value x of type t_src to type t_dst.
func (i *interpreter) conv(t_dst, t_src types.Type, x value) value {
	ut_src := t_src.Underlying()
	ut_dst := t_dst.Underlying()

	switch ut_src := ut_src.(type) {
	case *types.Pointer:
		if b, ok := ut_dst.(*types.Basic); ok && b.Kind() == types.UnsafePointer {
			switch p := x.(type) {
			case *value:
				return unsafe.Pointer(p)
			case rawAddr:
				return p
			}
		}
	case *types.Slice:
		// []byte or []rune -> string
		switch ut_src.Elem().Underlying().(*types.Basic).Kind() {
		case types.Byte:
			x := x.([]value)
			r := make(symstr, len(x))
			copy(r, x)
			return normStr(r)
		case types.Rune:
			x := x.([]value)
			r := make([]rune, 0, len(x))
			for k := range x {
				rv, ok := x[k].(rune)
				if !ok {
					unsupported("symbolic []rune -> string")
				}
				r = append(r, rv)
			}
			return string(r)
		}
	case *types.Basic:
		ks := ut_src.Kind()
		// unsafe.Pointer -> *T or uintptr
		if ks == types.UnsafePointer {
			switch d := ut_dst.(type) {
			case *types.Pointer:
				switch p := x.(type) {
				case unsafe.Pointer:
					return (*value)(p)
				case rawAddr:
					return p
				}
			case *types.Basic:
				if d.Kind() == types.Uintptr {
					switch p := x.(type) {
					case unsafe.Pointer:
						if p == nil {
							return uintptr(0)
						}
						return ptrTok{p: (*value)(p)}
					case rawAddr:
						return p.a
					}
				}
				if d.Kind() == types.UnsafePointer {
					return x
				}
			}
			break
		}
		if ks == types.Uintptr {
			if d, ok := ut_dst.(*types.Basic); ok && d.Kind() == types.UnsafePointer {
				switch u := x.(type) {
				case ptrTok:
					if u.off != 0 {
						// byte cells are one interpreter cell per byte: byte offsets are cell offsets
						if u.p != nil && isByteCell(*u.p) {
							return unsafe.Pointer(cellAt(u.p, u.off))
						}
						unsupported("pointer token with offset converted back to pointer")
					}
					return unsafe.Pointer(u.p)
				case uintptr:
					if u == 0 {
						return unsafe.Pointer(nil)
					}
					return rawAddr{u}
				case *SV:
					return rawAddr{u}
				}
			}
			if pt, ok := x.(ptrTok); ok {
				if d, ok := ut_dst.(*types.Basic); ok {
					if w, _, ok := kindInfo(d.Kind()); ok && w == 64 {
						return pt // keep the token through uint64/int/uintptr conversions
					}
				}
				unsupported("pointer token converted to %s", t_dst)
			}
		}
		if pt, ok := x.(ptrTok); ok {
			if d, ok := ut_dst.(*types.Basic); ok {
				if w, _, ok := kindInfo(d.Kind()); ok && w == 64 {
					return pt
				}
			}
			unsupported("pointer token converted to %s", t_dst)
		}

		// string source
		if ks == types.String || ks == types.UntypedString {
			switch ut_dst := ut_dst.(type) {
			case *types.Slice:
				switch ut_dst.Elem().Underlying().(*types.Basic).Kind() {
				case types.Rune:
					s, ok := x.(string)
					if !ok {
						unsupported("symbolic string -> []rune")
					}
					var res []value
					for _, r := range []rune(s) {
						res = append(res, r)
					}
					return res
				case types.Byte:
					n := strLen(x)
					res := make([]value, n)
					for k := 0; k < n; k++ {
						res[k] = strByte(x, k)
					}
					return res
				}
			case *types.Basic:
				if ut_dst.Kind() == types.String {
					return x
				}
			}
			break
		}

		dk, dok := basicKind(t_dst)
		if !dok {
			break
		}
		// integer -> string
		if ut_src.Info()&types.IsInteger != 0 && dk == types.String {
			if sv, ok := x.(*SV); ok {
				x = mkInt(ks, i.concretize(sv.t, "integer->string conversion"))
			}
			return string(rune(asInt64(x)))
		}
		// bool -> bool (named)
		if ks == types.Bool || ks == types.UntypedBool {
			return x
		}
		sw, ssigned, sInt := kindInfo(func() types.BasicKind { k, _ := basicKind(t_src); return k }())
		dw, _, dInt := kindInfo(dk)
		switch {
		case sInt && dInt:
			if sv, ok := x.(*SV); ok {
				var t *Term
				switch {
				case dw == sw:
					t = sv.t
				case dw < sw:
					t = mkExtract(sv.t, dw-1, 0)
				case ssigned:
					t = mkSext(sv.t, dw)
				default:
					t = mkZext(sv.t, dw)
				}
				return svOrConst(t, dk)
			}
			bits, _, ok := intBits(x)
			if !ok {
				break
			}
			if ssigned {
				bits = uint64(sx(bits, sw))
			} else {
				bits &= mask(sw)
			}
			return mkInt(dk, bits)
		case sInt && (dk == types.Float64 || dk == types.Float32):
			if _, ok := x.(*SV); ok {
				unsupported("symbolic integer -> float")
			}
			var f float64
			if ssigned {
				f = float64(asInt64(x))
			} else {
				b, _, _ := intBits(x)
				f = float64(b & mask(sw))
			}
			if dk == types.Float32 {
				return float32(f)
			}
			return f
		case (ks == types.Float64 || ks == types.Float32 || ks == types.UntypedFloat) && dInt:
			var f float64
			switch x := x.(type) {
			case float64:
				f = x
			case float32:
				f = float64(x)
			}
			_, dsigned, _ := kindInfo(dk)
			if dsigned {
				return mkInt(dk, uint64(int64(f)))
			}
			return mkInt(dk, uint64(f))
		case (ks == types.Float64 || ks == types.Float32 || ks == types.UntypedFloat) && (dk == types.Float64 || dk == types.Float32):
			var f float64
			switch x := x.(type) {
			case float64:
				f = x
			case float32:
				f = float64(x)
			}
			if dk == types.Float32 {
				return float32(f)
			}
			return f
		}
	}
	panic(fmt.Sprintf("unsupported conversion: %s  -> %s, dynamic type %T", t_src, t_dst, x))
}

// sliceToArrayPointer converts the value x of type slice to a pointer to array.
func sliceToArrayPointer(t_dst, t_src types.Type, x value) value {
	if _, ok := t_src.Underlying().(*types.Slice); ok {
		if ptr, ok := t_dst.Underlying().(*types.Pointer); ok {
			if arr, ok := ptr.Elem().Underlying().(*types.Array); ok {
				x := x.([]value)
				if arr.Len() > int64(len(x)) {
					panic(runtimePanic{"cannot convert slice to array pointer: length mismatch"})
				}
				if x == nil {
					return zero(t_dst)
				}
				v := value(array(x[:arr.Len()]))
				return &v
			}
		}
	}
	panic(fmt.Sprintf("unsupported conversion: %s  -> %s, dynamic type %T", t_src, t_dst, x))
}

var _ = math.MaxInt
