// Derived from golang.org/x/tools/go/ssa/interp (BSD-style license, The Go Authors).
//
// symgo: a path-enumerating symbolic interpreter for go/ssa.  Scalars may be SMT
// terms; branches on symbolic conditions are decided by the solver and explored
// one feasible side at a time by re-execution with a decision prefix.

package main

import (
	"fmt"
	"go/token"
	"go/types"
	"os"
	"unsafe"
	"runtime"
	"slices"
	"strings"

	"golang.org/x/tools/go/ssa"
)

type continuation int

const (
	kNext continuation = iota
	kReturn
	kJump
)

// State shared between all interpreted goroutines of one path.
type interpreter struct {
	prog       *ssa.Program
	globals    map[*ssa.Global]*value
	pkgInit    map[*ssa.Package]bool
	sizes      types.Sizes
	ex         *explorer
	ps         *pathState
	intercepts map[string]value // function name -> replacement function value
	sched      *scheduler
	steps      int64
	maxSteps   int64
	tracing    bool
	side       map[interface{}]interface{} // per-path side tables (mutex state, ...)
	origin     map[*value][]value          // interior pointer -> the container it points into (for fork deep copies)
	errString  types.Type
}

type deferred struct {
	fn    value
	args  []value
	instr *ssa.Defer
	tail  *deferred
}

type frame struct {
	i                *interpreter
	th               *thread
	caller           *frame
	fn               *ssa.Function
	block, prevBlock *ssa.BasicBlock
	env              map[ssa.Value]value // dynamic values of SSA variables
	locals           []value
	defers           *deferred
	result           value
	panicking        bool
	panic            interface{}
	phitemps         []value // temporaries for parallel phi assignment
	pc               int     // index of next instruction in block (for frame cloning)
	callpos          token.Pos
}

func (fr *frame) get(key ssa.Value) value {
	switch key := key.(type) {
	case nil:
		return nil
	case *ssa.Function, *ssa.Builtin:
		return key
	case *ssa.Const:
		return constValue(key)
	case *ssa.Global:
		return fr.i.global(key)
	}
	if r, ok := fr.env[key]; ok {
		return r
	}
	panic(fmt.Sprintf("get: no value for %T: %v", key, key.Name()))
}

func (i *interpreter) global(g *ssa.Global) *value {
	if g.Pkg != nil {
		i.ensureInit(g.Pkg)
	}
	if r, ok := i.globals[g]; ok {
		return r
	}
	cell := zero(mustDeref(g.Type()))
	i.globals[g] = &cell
	return &cell
}

// ensureInit lazily runs the package initializer of pkg (first touch).
func (i *interpreter) ensureInit(pkg *ssa.Package) {
	if i.pkgInit[pkg] {
		return
	}
	i.pkgInit[pkg] = true
	path := pkg.Pkg.Path()
	if skipInit[path] {
		if f := engineInit[path]; f != nil {
			f(i, pkg)
		}
		return
	}
	initFn := pkg.Func("init")
	if initFn == nil || initFn.Blocks == nil {
		return
	}
	// run on a private pseudo-thread context: init never blocks
	th := i.sched.cur
	callSSA(i, &frame{i: i, th: th}, token.NoPos, initFn, nil, nil)
	if f := engineInit[path]; f != nil {
		f(i, pkg)
	}
}

// runDefer runs a deferred call d.
func (fr *frame) runDefer(d *deferred) {
	var ok bool
	defer func() {
		if !ok {
			// Deferred call created a new state of panic.
			p := recover()
			if isEnginePanic(p) {
				panic(p)
			}
			fr.panicking = true
			fr.panic = p
		}
	}()
	call(fr.i, fr, d.instr.Pos(), d.fn, d.args)
	ok = true
}

func isEnginePanic(p interface{}) bool {
	switch p.(type) {
	case engineError, abortPath, exitPanic:
		return true
	}
	return false
}

func (fr *frame) runDefers() {
	for d := fr.defers; d != nil; d = d.tail {
		fr.runDefer(d)
	}
	fr.defers = nil
	if fr.panicking {
		panic(fr.panic) // new panic, or still panicking
	}
}

func lookupMethod(i *interpreter, typ types.Type, meth *types.Func) *ssa.Function {
	return i.prog.LookupMethod(typ, meth.Pkg(), meth.Name())
}

// truth returns the branch taken for a (possibly symbolic) condition.
func (i *interpreter) truth(c value) bool {
	switch c := c.(type) {
	case bool:
		return c
	case *SV:
		return i.decide(c.t)
	}
	panic(fmt.Sprintf("truth: %T", c))
}

// visitInstr interprets a single ssa.Instruction within the activation record frame.
func visitInstr(fr *frame, instr ssa.Instruction) continuation {
	i := fr.i
	switch instr := instr.(type) {
	case *ssa.DebugRef:
		// no-op

	case *ssa.UnOp:
		fr.env[instr] = i.unop(fr, instr, fr.get(instr.X))

	case *ssa.BinOp:
		fr.env[instr] = i.binop(instr.Op, instr.X.Type(), instr.Y.Type(), fr.get(instr.X), fr.get(instr.Y))

	case *ssa.Call:
		fn, args := prepareCall(fr, &instr.Call)
		fr.env[instr] = call(fr.i, fr, instr.Pos(), fn, args)

	case *ssa.ChangeInterface:
		fr.env[instr] = fr.get(instr.X)

	case *ssa.ChangeType:
		fr.env[instr] = fr.get(instr.X) // (can't fail)

	case *ssa.Convert:
		fr.env[instr] = i.conv(instr.Type(), instr.X.Type(), fr.get(instr.X))

	case *ssa.SliceToArrayPointer:
		fr.env[instr] = sliceToArrayPointer(instr.Type(), instr.X.Type(), fr.get(instr.X))

	case *ssa.MakeInterface:
		fr.env[instr] = iface{t: instr.X.Type(), v: fr.get(instr.X)}

	case *ssa.Extract:
		fr.env[instr] = fr.get(instr.Tuple).(tuple)[instr.Index]

	case *ssa.Slice:
		fr.env[instr] = i.slice(instr, fr.get(instr.X), fr.get(instr.Low), fr.get(instr.High), fr.get(instr.Max))

	case *ssa.Return:
		switch len(instr.Results) {
		case 0:
		case 1:
			fr.result = fr.get(instr.Results[0])
		default:
			var res []value
			for _, r := range instr.Results {
				res = append(res, fr.get(r))
			}
			fr.result = tuple(res)
		}
		fr.block = nil
		return kReturn

	case *ssa.RunDefers:
		fr.runDefers()

	case *ssa.Panic:
		panic(targetPanic{fr.get(instr.X)})

	case *ssa.Send:
		i.chanSend(fr, fr.get(instr.Chan).(*gochan), fr.get(instr.X))

	case *ssa.Store:
		switch addr := fr.get(instr.Addr).(type) {
		case *value:
			if addr == nil {
				panic(runtimePanic{"invalid memory address or nil pointer dereference"})
			}
			T := mustDeref(instr.Addr.Type())
			if !i.storeBytes(T, addr, fr.get(instr.Val)) {
				store(T, addr, fr.get(instr.Val))
			}
		default:
			unsupported("store through %T at %s", addr, i.prog.Fset.Position(instr.Pos()))
		}

	case *ssa.If:
		succ := 1
		if i.truth(fr.get(instr.Cond)) {
			succ = 0
		}
		fr.prevBlock, fr.block = fr.block, fr.block.Succs[succ]
		return kJump

	case *ssa.Jump:
		fr.prevBlock, fr.block = fr.block, fr.block.Succs[0]
		return kJump

	case *ssa.Defer:
		fn, args := prepareCall(fr, &instr.Call)
		defers := &fr.defers
		if into := fr.get(instr.DeferStack); into != nil {
			defers = into.(**deferred)
		}
		*defers = &deferred{
			fn:    fn,
			args:  args,
			instr: instr,
			tail:  *defers,
		}

	case *ssa.Go:
		fn, args := prepareCall(fr, &instr.Call)
		i.spawn(fr, instr.Pos(), fn, args)

	case *ssa.MakeChan:
		fr.env[instr] = i.makeChan(int(i.concInt(fr.get(instr.Size), types.Typ[types.Int], "chan size")))

	case *ssa.Alloc:
		var addr *value
		if instr.Heap {
			addr = new(value)
			fr.env[instr] = addr
		} else {
			addr = fr.env[instr].(*value)
		}
		*addr = zero(mustDeref(instr.Type()))

	case *ssa.MakeSlice:
		c := i.concInt(fr.get(instr.Cap), types.Typ[types.Int], "make cap")
		l := i.concInt(fr.get(instr.Len), types.Typ[types.Int], "make len")
		if l < 0 || c < l || c > 1<<24 {
			panic(runtimePanic{fmt.Sprintf("makeslice: len/cap out of range (%d,%d)", l, c)})
		}
		slice := make([]value, c)
		tElt := instr.Type().Underlying().(*types.Slice).Elem()
		for k := range slice {
			slice[k] = zero(tElt)
		}
		fr.env[instr] = slice[:l]

	case *ssa.MakeMap:
		fr.env[instr] = makeMap(instr.Type().Underlying().(*types.Map).Key())

	case *ssa.Range:
		fr.env[instr] = i.rangeIter(fr.get(instr.X), instr.X.Type())

	case *ssa.Next:
		fr.env[instr] = fr.get(instr.Iter).(iter).next()

	case *ssa.FieldAddr:
		p, ok := fr.get(instr.X).(*value)
		if !ok {
			unsupported("field address through %T at %s", fr.get(instr.X), i.prog.Fset.Position(instr.Pos()))
		}
		if p == nil {
			panic(runtimePanic{"invalid memory address or nil pointer dereference"})
		}
		st, isStruct := (*p).(structure)
		if !isStruct {
			if isByteCell(*p) {
				// a struct view over bytes ((*T)(unsafe.Pointer(&b[0]))): the field lives at its byte offset
				stT := instr.X.Type().Underlying().(*types.Pointer).Elem().Underlying().(*types.Struct)
				fields := make([]*types.Var, stT.NumFields())
				for k := range fields {
					fields[k] = stT.Field(k)
				}
				offs := i.sizes.Offsetsof(fields)
				fr.env[instr] = cellAt(p, int(offs[instr.Field]))
				break
			}
			unsupported("field address of a non-struct cell (%T) at %s", *p, i.prog.Fset.Position(instr.Pos()))
		}
		fp := &st[instr.Field]
		i.origin[fp] = []value(st)
		fr.env[instr] = fp

	case *ssa.Field:
		fr.env[instr] = fr.get(instr.X).(structure)[instr.Field]

	case *ssa.IndexAddr:
		x := fr.get(instr.X)
		var n int
		switch x := x.(type) {
		case []value:
			n = len(x)
		case *value:
			if x == nil {
				panic(runtimePanic{"invalid memory address or nil pointer dereference"})
			}
			n = len((*x).(array))
		default:
			panic(fmt.Sprintf("unexpected x type in IndexAddr: %T", x))
		}
		idx := i.index(fr.get(instr.Index), instr.Index.Type(), n)
		switch x := x.(type) {
		case []value:
			ep := &x[idx]
			i.origin[ep] = x
			fr.env[instr] = ep
		case *value: // *array
			arr := (*x).(array)
			ep := &arr[idx]
			i.origin[ep] = []value(arr)
			fr.env[instr] = ep
		}

	case *ssa.Index:
		x := fr.get(instr.X)
		switch x := x.(type) {
		case array:
			fr.env[instr] = copyVal(x[i.index(fr.get(instr.Index), instr.Index.Type(), len(x))])
		case string:
			iv := fr.get(instr.Index)
			if sv, ok := iv.(*SV); ok && len(x) > 0 && len(x) <= 64 {
				fr.env[instr] = i.symIndexStr(x, sv, instr.Index.Type())
			} else {
				fr.env[instr] = x[i.index(iv, instr.Index.Type(), len(x))]
			}
		case symstr:
			iv := fr.get(instr.Index)
			if sv, ok := iv.(*SV); ok && len(x) > 0 && len(x) <= 64 {
				fr.env[instr] = i.symIndexStr(x, sv, instr.Index.Type())
			} else {
				fr.env[instr] = x[i.index(iv, instr.Index.Type(), len(x))]
			}
		default:
			panic(fmt.Sprintf("unexpected x type in Index: %T", x))
		}

	case *ssa.Lookup:
		x := fr.get(instr.X)
		switch xs := x.(type) {
		case string, symstr:
			n := strLen(xs)
			fr.env[instr] = strByte(xs, i.index(fr.get(instr.Index), instr.Index.Type(), n))
		default:
			fr.env[instr] = i.lookup(instr, x, fr.get(instr.Index))
		}

	case *ssa.MapUpdate:
		m := fr.get(instr.Map).(*gomap)
		if m == nil {
			panic(runtimePanic{"assignment to entry in nil map"})
		}
		m.insert(i, fr.get(instr.Key), copyVal(fr.get(instr.Value)))

	case *ssa.TypeAssert:
		fr.env[instr] = typeAssert(fr.i, instr, fr.get(instr.X).(iface))

	case *ssa.MakeClosure:
		var bindings []value
		for _, binding := range instr.Bindings {
			bindings = append(bindings, fr.get(binding))
		}
		fr.env[instr] = &closure{instr.Fn.(*ssa.Function), bindings}

	case *ssa.Phi:
		panic("unreachable: phi") // phis are processed at block entry

	case *ssa.Select:
		fr.env[instr] = i.doSelect(fr, instr)

	default:
		panic(fmt.Sprintf("unexpected instruction: %T", instr))
	}
	return kNext
}

// index checks and concretises an index into a sequence of length n.
func (i *interpreter) index(idx value, t types.Type, n int) int {
	if sv, ok := idx.(*SV); ok {
		k, _ := basicKind(t)
		w, signed, _ := kindInfo(k)
		if w == 0 {
			w = sv.t.w
		}
		// out of range?
		oob := oobTerm(sv.t, w, signed, n)
		if i.decide(oob) {
			panic(runtimePanic{fmt.Sprintf("index out of range [symbolic] with length %d", n)})
		}
		save := i.ex.concCap
		if n+1 > save {
			i.ex.concCap = n + 1
		}
		r := int(i.concretize(sv.t, "index"))
		i.ex.concCap = save
		return r
	}
	v := asInt64(idx)
	if v < 0 || v >= int64(n) {
		panic(runtimePanic{fmt.Sprintf("index out of range [%d] with length %d", v, n)})
	}
	return int(v)
}

// symIndexStr reads s[idx] for symbolic idx as an ite chain (no forking inside range).
func (i *interpreter) symIndexStr(s value, sv *SV, t types.Type) value {
	n := strLen(s)
	k, _ := basicKind(t)
	w, signed, _ := kindInfo(k)
	if w == 0 {
		w = sv.t.w
	}
	oob := oobTerm(sv.t, w, signed, n)
	if i.decide(oob) {
		panic(runtimePanic{fmt.Sprintf("index out of range [symbolic] with length %d", n)})
	}
	res := byteTerm(strByte(s, n-1))
	for k := n - 2; k >= 0; k-- {
		res = mkIte(mkCmp("=", sv.t, mkConst(w, uint64(k))), byteTerm(strByte(s, k)), res)
	}
	return svOrConst(res, types.Uint8)
}

func prepareCall(fr *frame, call *ssa.CallCommon) (fn value, args []value) {
	v := fr.get(call.Value)
	if call.Method == nil {
		fn = v
	} else {
		recv := v.(iface)
		if recv.t == nil {
			panic(runtimePanic{"invalid memory address or nil pointer dereference (method on nil interface)"})
		}
		if f := lookupMethod(fr.i, recv.t, call.Method); f == nil {
			panic(fmt.Sprintf("method set for dynamic type %v does not contain %s", recv.t, call.Method))
		} else {
			fn = f
		}
		args = append(args, recv.v)
	}
	for _, arg := range call.Args {
		args = append(args, fr.get(arg))
	}
	return
}

func call(i *interpreter, caller *frame, callpos token.Pos, fn value, args []value) value {
	switch fn := fn.(type) {
	case *ssa.Function:
		if fn == nil {
			panic(runtimePanic{"call of nil function"})
		}
		return callSSA(i, caller, callpos, fn, args, nil)
	case *closure:
		return callSSA(i, caller, callpos, fn.Fn, args, fn.Env)
	case *ssa.Builtin:
		return i.callBuiltin(caller, callpos, fn, args)
	}
	panic(fmt.Sprintf("cannot call %T", fn))
}

func (i *interpreter) pos(p token.Pos) string {
	if p == token.NoPos {
		return "?"
	}
	return i.prog.Fset.Position(p).String()
}

// callSSA interprets a call to function fn with arguments args.
func callSSA(i *interpreter, caller *frame, callpos token.Pos, fn *ssa.Function, args []value, env []value) value {
	var th *thread
	if caller != nil {
		th = caller.th
	}
	fr := &frame{i: i, th: th, caller: caller, fn: fn, callpos: callpos}
	if fn.Parent() == nil {
		name := fn.String()
		if fn.Synthetic != "" && fn.Origin() != nil {
			// instantiated generic: look up by origin name too
			if ext := externals[fn.Origin().String()]; ext != nil {
				return ext(fr, args)
			}
		}
		if rep, ok := i.intercepts[name]; ok {
			return call(i, caller, callpos, rep, args)
		}
		if ext := externals[name]; ext != nil {
			return ext(fr, args)
		}
		if nat := natives[name]; nat != nil {
			if r, ok := nat(args); ok {
				return r
			}
		}
		if fn.Name() == "init" && fn.Pkg != nil && fn.Signature.Recv() == nil && caller != nil && caller.fn != nil && caller.fn.Name() == "init" && caller.fn.Pkg != fn.Pkg {
			// import-edge init call: packages are initialised lazily on first touch
			return nil
		}
		if fn.Pkg != nil {
			i.ensureInit(fn.Pkg)
		}
		if fn.Blocks == nil {
			unsupported("no code for function %s (called at %s)", name, i.pos(callpos))
		}
		if fn.Pkg != nil && trackedPkg(fn.Pkg.Pkg.Path()) {
			i.ex.funcs[fn] = true
		}
	} else if fn.Pkg != nil && trackedPkg(fn.Pkg.Pkg.Path()) {
		i.ex.funcs[fn] = true
	}
	if fn.TypeParams().Len() > 0 && len(fn.TypeArgs()) == 0 {
		unsupported("uninstantiated generic %s", fn)
	}
	if i.tracing {
		fmt.Fprintf(os.Stderr, "%*sEntering %s\n", depthOf(caller), "", fn)
	}

	fr.env = make(map[ssa.Value]value)
	fr.block = fn.Blocks[0]
	fr.pc = -1
	fr.locals = make([]value, len(fn.Locals))
	for k, l := range fn.Locals {
		fr.locals[k] = zero(mustDeref(l.Type()))
		fr.env[l] = &fr.locals[k]
	}
	for k, p := range fn.Params {
		fr.env[p] = args[k]
	}
	for k, fv := range fn.FreeVars {
		fr.env[fv] = env[k]
	}
	for fr.block != nil {
		runFrame(fr)
	}
	return fr.result
}

func depthOf(fr *frame) int {
	d := 0
	for ; fr != nil; fr = fr.caller {
		d++
	}
	return d
}

// runFrame executes SSA instructions starting at fr.block/fr.pc and
// continuing until a return, a panic, or a recovered panic.
func runFrame(fr *frame) {
	defer func() {
		if fr.block == nil {
			return // normal return
		}
		p := recover()
		if isEnginePanic(p) {
			panic(p)
		}
		if re, ok := p.(runtime.Error); ok {
			// a bug in the interpreter itself, or a Go runtime error from a native op
			panic(engineError{fmt.Sprintf("interpreter runtime error in %s: %v", fr.fn, re)})
		}
		if s, ok := p.(string); ok {
			panic(engineError{fmt.Sprintf("interpreter panic in %s: %s", fr.fn, s)})
		}
		fr.panicking = true
		fr.panic = p
		fr.runDefers()
		fr.block = fr.fn.Recover
		fr.pc = -1
		if fr.block == nil {
			// recovered, no recover block: return zero results
			fr.result = zeroResult(fr.fn)
		}
	}()

	for {
		if fr.pc < 0 {
			fr.pc = executePhis(fr)
		}
		instrs := fr.block.Instrs
		jumped := false
		for fr.pc < len(instrs) {
			instr := instrs[fr.pc]
			fr.pc++
			fr.i.steps++
			if fr.i.steps > fr.i.maxSteps {
				panic(engineError{fmt.Sprintf("step budget exceeded (%d) in %s", fr.i.maxSteps, fr.fn)})
			}
			if fr.i.tracing {
				if v, ok := instr.(ssa.Value); ok {
					fmt.Fprintf(os.Stderr, "%*s%s = %s\n", depthOf(fr), "", v.Name(), instr)
				} else {
					fmt.Fprintf(os.Stderr, "%*s%s\n", depthOf(fr), "", instr)
				}
			}
			switch visitInstr(fr, instr) {
			case kReturn:
				return
			case kJump:
				fr.pc = -1
				jumped = true
			}
			if jumped {
				break
			}
		}
		if !jumped {
			panic("block fell through")
		}
	}
}

func zeroResult(fn *ssa.Function) value {
	res := fn.Signature.Results()
	switch res.Len() {
	case 0:
		return nil
	case 1:
		return zero(res.At(0).Type())
	}
	return zero(res)
}

// executePhis executes the phi-nodes at the start of the current
// block and returns the index of the first non-phi instruction.
func executePhis(fr *frame) int {
	firstNonPhi := -1
	for k, instr := range fr.block.Instrs {
		if _, ok := instr.(*ssa.Phi); !ok {
			firstNonPhi = k
			break
		}
	}
	if firstNonPhi > 0 {
		phis := fr.block.Instrs[:firstNonPhi]
		predIndex := slices.Index(fr.block.Preds, fr.prevBlock)
		fr.phitemps = fr.phitemps[:0]
		for _, phi := range phis {
			phi := phi.(*ssa.Phi)
			fr.phitemps = append(fr.phitemps, fr.get(phi.Edges[predIndex]))
		}
		for k, phi := range phis {
			fr.env[phi.(*ssa.Phi)] = fr.phitemps[k]
		}
	}
	return firstNonPhi
}

// doRecover implements the recover() built-in.
func doRecover(caller *frame) value {
	if caller != nil && !caller.panicking &&
		caller.caller != nil && caller.caller.panicking {
		caller.caller.panicking = false
		p := caller.caller.panic
		caller.caller.panic = nil
		i := caller.i
		switch p := p.(type) {
		case targetPanic:
			return p.v
		case runtimePanic:
			i.ps.events = append(i.ps.events, "recovered runtime panic: "+p.msg)
			return iface{i.errString, "runtime error: " + p.msg}
		default:
			panic(fmt.Sprintf("unexpected panic type %T in target call to recover()", p))
		}
	}
	return iface{}
}

func funcName(fn value) string {
	switch fn := fn.(type) {
	case *ssa.Function:
		return fn.String()
	case *closure:
		return fn.Fn.String()
	}
	return fmt.Sprintf("%T", fn)
}

func shortPos(s string) string {
	if k := strings.LastIndex(s, "/repo/"); k >= 0 {
		return s[k+6:]
	}
	return s
}

func trackedPkg(path string) bool {
	if strings.Contains(path, "/zzverif/") {
		return false
	}
	return strings.HasPrefix(path, "github.com/criyle/go-sandbox") || strings.HasPrefix(path, "github.com/elastic/go-seccomp-bpf") || strings.HasPrefix(path, "golang.org/x/net/bpf")
}

func isByteCell(v value) bool {
	switch v := v.(type) {
	case uint8:
		return true
	case *SV:
		return v.t.w == 8
	}
	return false
}

func cellAt(p *value, k int) *value {
	return (*value)(unsafe.Add(unsafe.Pointer(p), uintptr(k)*unsafe.Sizeof(value(nil))))
}

// storeBytes handles a store of a wide integer through a pointer that really
// designates byte cells (reinterpreted via unsafe.Pointer): little-endian split.
func (i *interpreter) storeBytes(T types.Type, addr *value, v value) bool {
	if stT, ok := T.Underlying().(*types.Struct); ok && isByteCell(*addr) {
		// a struct stored through a view over bytes: field by field at its byte offset
		fields := make([]*types.Var, stT.NumFields())
		for k := range fields {
			fields[k] = stT.Field(k)
		}
		offs := i.sizes.Offsetsof(fields)
		sv := v.(structure)
		for k, f := range fields {
			c := cellAt(addr, int(offs[k]))
			if kk, ok := basicKind(f.Type()); ok {
				if w, _, isInt := kindInfo(kk); isInt && w == 8 {
					*c = sv[k]
					continue
				}
			}
			if !i.storeBytes(f.Type(), c, sv[k]) {
				unsupported("struct store over byte cells: field %s of %s", f.Name(), T)
			}
		}
		return true
	}
	k, ok := basicKind(T)
	if !ok {
		return false
	}
	w, _, isInt := kindInfo(k)
	if !isInt || w == 8 || !isByteCell(*addr) {
		return false
	}
	t := i.toTerm(v, w)
	for b := 0; b < w/8; b++ {
		c := cellAt(addr, b)
		if !isByteCell(*c) {
			unsupported("wide store runs past byte cells")
		}
		*c = svOrConst(mkExtract(t, b*8+7, b*8), types.Uint8)
	}
	return true
}

// loadBytes is the inverse of storeBytes.
func (i *interpreter) loadBytes(T types.Type, addr *value) (value, bool) {
	if stT, ok := T.Underlying().(*types.Struct); ok && isByteCell(*addr) {
		fields := make([]*types.Var, stT.NumFields())
		for k := range fields {
			fields[k] = stT.Field(k)
		}
		offs := i.sizes.Offsetsof(fields)
		out := make(structure, len(fields))
		for k, f := range fields {
			c := cellAt(addr, int(offs[k]))
			if kk, ok := basicKind(f.Type()); ok {
				if w, _, isInt := kindInfo(kk); isInt && w == 8 {
					out[k] = *c
					continue
				}
			}
			fv, ok := i.loadBytes(f.Type(), c)
			if !ok {
				unsupported("struct load over byte cells: field %s of %s", f.Name(), T)
			}
			out[k] = fv
		}
		return out, true
	}
	k, ok := basicKind(T)
	if !ok {
		return nil, false
	}
	w, _, isInt := kindInfo(k)
	if !isInt || w == 8 || !isByteCell(*addr) {
		return nil, false
	}
	var t *Term
	for b := w/8 - 1; b >= 0; b-- {
		c := cellAt(addr, b)
		if !isByteCell(*c) {
			unsupported("wide load runs past byte cells")
		}
		bt := byteTerm(*c)
		if t == nil {
			t = bt
		} else {
			t = mkConcat(t, bt)
		}
	}
	return svOrConst(t, k), true
}

// oobTerm: idx is outside [0,n) for an index of width w.
func oobTerm(t *Term, w int, signed bool, n int) *Term {
	maxv := uint64(1)<<uint(w) - 1
	if w >= 64 {
		maxv = ^uint64(0)
	}
	if signed {
		neg := mkCmp("bvslt", t, mkConst(w, 0))
		if w < 64 && uint64(n) > maxv>>1 {
			return neg // every non-negative value of this width is below n
		}
		return mkOr(neg, mkNot(mkCmp("bvslt", t, mkConst(w, uint64(n)))))
	}
	if w < 64 && uint64(n) > maxv {
		return tFalse
	}
	return mkNot(mkCmp("bvult", t, mkConst(w, uint64(n))))
}
