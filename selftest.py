#!/usr/bin/env python3
"""Translator validation: concrete SelfTest* harnesses are run by the symgo interpreter and
natively (go test -overlay); the reported outputs must be identical."""
import json, os, subprocess, sys, tempfile
ROOT = os.path.dirname(os.path.abspath(__file__))
REPO = os.environ.get("VERIF_REPO", "/repo")
ENV = dict(os.environ, GOFLAGS="-mod=mod", GOPROXY="off", CGO_ENABLED="0")
TESTS = [("./pkg/seccomp/libseccomp", "libseccomp", "SelfTestC01"), ("./runner/ptrace", "ptrace", "SelfTestC02"),
         ("./runner/ptrace/filehandler", "filehandler", "SelfTestC18"), ("./pkg/rlimit", "rlimit", "SelfTestC08"), ("./ptracer", "ptracer", "SelfTestC15"),
         ("./pkg/unixsocket", "unixsocket", "SelfTestC19")]
bad = 0
work = tempfile.mkdtemp(prefix="selftest_", dir=os.path.join(ROOT, ".work")) if os.path.isdir(os.path.join(ROOT, ".work")) else tempfile.mkdtemp()
for pkg, pkgname, fn in TESTS:
    out = os.path.join(work, fn + ".json")
    r = subprocess.run([os.path.join(ROOT, "bin", "symgo"), "-dir", REPO, "-overlay", os.path.join(ROOT, "harness"), "-pkg", pkg, "-run", "^" + fn + "$", "-out", out],
                       env=ENV, text=True, stdout=subprocess.PIPE, stderr=subprocess.STDOUT)
    try:
        interp = json.load(open(out))[0].get("outputs") or {}
    except Exception:
        print("SELFTEST-ERROR", fn, "interpreter run failed:\n", r.stdout[-2000:]); bad += 1; continue
    test = os.path.join(work, fn + "_test.go")
    open(test, "w").write('package %s\n\nimport (\n\t"encoding/json"\n\t"fmt"\n\t"testing"\n\n\t"github.com/criyle/go-sandbox/zzverif/sym"\n)\n\nfunc TestSelfTestNative(t *testing.T) {\n\t%s()\n\tb, _ := json.Marshal(sym.Outputs)\n\tfmt.Println("SELFTEST-OUTPUT " + string(b))\n}\n' % (pkgname, fn))
    repl = {}
    hroot = os.path.join(ROOT, "harness")
    pkgdir = os.path.normpath(os.path.join(REPO, pkg))
    for dp, _, fs in os.walk(hroot):
        for f in fs:
            rel = os.path.relpath(os.path.join(dp, f), hroot)
            if f.endswith(".go") and (rel.startswith("zzverif/sym/") or (os.path.normpath(os.path.dirname(rel)) == os.path.normpath(pkg) and (f.startswith("zz_selftest") or f == "zz_verif_common.go"))):
                repl[os.path.join(REPO, rel)] = os.path.join(dp, f)
    repl[os.path.join(pkgdir, "zz_selftest_native_test.go")] = test
    ov = os.path.join(work, fn + "_ov.json")
    json.dump({"Replace": repl}, open(ov, "w"))
    r = subprocess.run(["go", "test", "-vet=off", "-count=1", "-overlay", ov, "-run", "^TestSelfTestNative$", "-v", pkg], cwd=REPO, env=ENV, text=True, stdout=subprocess.PIPE, stderr=subprocess.STDOUT)
    native = None
    for line in r.stdout.splitlines():
        if line.startswith("SELFTEST-OUTPUT "):
            native = json.loads(line[len("SELFTEST-OUTPUT "):])
    if native is None:
        print("SELFTEST-ERROR", fn, "native run failed:\n", r.stdout[-2000:]); bad += 1; continue
    if native != interp:
        bad += 1
        for k in sorted(set(native) | set(interp)):
            if native.get(k) != interp.get(k):
                print("SELFTEST-MISMATCH %s %s\n  native: %s\n  interp: %s" % (fn, k, native.get(k), interp.get(k)))
    else:
        print("selftest %s: %d outputs agree" % (fn, len(native)))
subprocess.run(["rm", "-rf", work])
sys.exit(1 if bad else 0)
