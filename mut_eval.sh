#!/bin/bash
# mut_eval.sh <PID> <patch.diff> [tier]: apply a mutation to /repo, run the check, undo.
pid=$1; patch=$2; tier=${3:-quick}
cd /repo || exit 9
if ! git diff --quiet; then echo "REPO DIRTY"; exit 9; fi
if ! git apply --check "$patch" 2>/dev/null; then echo "PATCH-DOES-NOT-APPLY"; exit 8; fi
git apply "$patch"
(cd /repo && GOFLAGS=-mod=mod GOPROXY=off go build ./... ) || { echo "MUTANT-DOES-NOT-BUILD"; git checkout -- .; exit 7; }
cp /verif/evidence/$pid.json /tmp/evidence_keep_$pid.json 2>/dev/null
cd /verif && ./check $pid --tier $tier > /tmp/mut_eval_$pid.log 2>&1; rc=$?
cp /tmp/evidence_keep_$pid.json /verif/evidence/$pid.json 2>/dev/null
cd /repo && git checkout -- . && git clean -fdq -- . >/dev/null 2>&1
echo "rc=$rc"; grep -E "VIOLATION|CHECK-ERROR|counterexample:" /tmp/mut_eval_$pid.log | cut -c1-300 | head -6
