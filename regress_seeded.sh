#!/bin/bash
# regress_seeded.sh [id-regexp]: runs every seeded change against its property's quick check in a
# scratch worktree of /repo (never in /repo itself) using a frozen snapshot of /verif (so that work
# going on in /verif does not disturb it); prints one line per seeded change.
set -u
W=/tmp/repo_regress_$$
S=/tmp/verif_snapshot_$$
sel=${1:-.}
rsync -a --exclude .git --exclude replays --exclude evidence /verif/ $S/
cd /repo && git worktree add -q --detach $W HEAD || exit 9
export VERIF_REPO=$W VERIF_EVIDENCE_DIR=$S/evidence VERIF_REPLAY_DIR=$S/replays VERIF_JOBS=${VERIF_JOBS:-6}
mkdir -p $S/evidence $S/replays
for d in $S/seeded/*/; do
  id=$(basename $d); pid=${id%%_*}
  echo "$id" | grep -Eq "$sel" || continue
  cd $W && git checkout -q -- . && git clean -fdq
  if ! git apply --check $d/patch.diff 2>/dev/null; then echo "$id: PATCH-DOES-NOT-APPLY (tree has moved on)"; continue; fi
  git apply $d/patch.diff
  cd $S && ./check $pid --tier quick > /tmp/regress_$id.log 2>&1; rc=$?
  line="$id: rc=$rc $(grep -c VIOLATION /tmp/regress_$id.log) violation line(s) $(grep -o "harness=[A-Za-z0-9_]*" /tmp/regress_$id.log | sort -u | tr '\n' ' ') $(grep -m1 CHECK-ERROR /tmp/regress_$id.log | cut -c1-150)"
  echo "$line"
  # coverage record kept with the seeded changes (one line per change, latest run wins)
  if [ -n "${COVERAGE_OUT:-}" ]; then grep -v "^$id:" "$COVERAGE_OUT" 2>/dev/null > "$COVERAGE_OUT.tmp"; echo "$line" >> "$COVERAGE_OUT.tmp"; sort "$COVERAGE_OUT.tmp" > "$COVERAGE_OUT"; rm -f "$COVERAGE_OUT.tmp"; fi
done
cd /repo && git worktree remove --force $W; rm -rf $S
