#!/bin/bash
# regress_seeded.sh: runs every seeded change against its property's quick check in a scratch
# worktree of /repo (never in /repo itself), prints one line per seeded change.
set -u
W=/tmp/repo_regress
cd /repo && git worktree remove --force $W 2>/dev/null; git worktree prune; git worktree add -q --detach $W HEAD || exit 9
export VERIF_REPO=$W VERIF_EVIDENCE_DIR=/tmp/regress_evidence VERIF_REPLAY_DIR=/tmp/regress_replays VERIF_JOBS=${VERIF_JOBS:-6}
for d in /verif/seeded/*/; do
  id=$(basename $d); pid=${id%%_*}
  cd $W && git checkout -q -- . 
  if ! git apply --check $d/patch.diff 2>/dev/null; then echo "$id: PATCH-DOES-NOT-APPLY (tree has moved on)"; continue; fi
  git apply $d/patch.diff
  cd /verif && ./check $pid --tier quick > /tmp/regress_$id.log 2>&1; rc=$?
  echo "$id: rc=$rc $(grep -c VIOLATION /tmp/regress_$id.log) violation line(s) $(grep -m1 -o "harness=[A-Za-z0-9_]*" /tmp/regress_$id.log)"
done
cd /repo && git worktree remove --force $W; rm -rf /tmp/regress_evidence /tmp/regress_replays
