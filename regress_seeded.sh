#!/bin/bash
# regress_seeded.sh [id-regexp]: runs every seeded change against its property's quick check in a
# scratch worktree of /repo (never in /repo itself) using a frozen snapshot of /verif (so that work
# going on in /verif does not disturb it); prints one line per seeded change.
set -u
W=/tmp/repo_regress_$$
S=/tmp/verif_snapshot_$$
sel=${1:-.}
rsync -a --exclude .git --exclude replays --exclude evidence /verif/ $S/
cd /repo && git worktree add -q --detach $W HEAD || exit 9
export VERIF_REPO=$W VERIF_EVIDENCE_DIR=$S/evidence VERIF_REPLAY_DIR=$S/replays VERIF_JOBS=${VERIF_JOBS:-6}
mkdir -p $S/evidence $S/replays
for d in $S/seeded/*/; do
  id=$(basename $d); pid=${id%%_*}
  echo "$id" | grep -Eq "$sel" || continue
  cd $W && git checkout -q -- . && git clean -fdq
  if ! git apply --check $d/patch.diff 2>/dev/null; then echo "$id: PATCH-DOES-NOT-APPLY (tree has moved on)"; continue; fi
  git apply $d/patch.diff
  cd $S && ./check $pid --tier quick > /tmp/regress_$id.log 2>&1; rc=$?
  echo "$id: rc=$rc $(grep -c VIOLATION /tmp/regress_$id.log) violation line(s) $(grep -m1 -o "harness=[A-Za-z0-9_]*" /tmp/regress_$id.log) $(grep -m1 CHECK-ERROR /tmp/regress_$id.log | cut -c1-150)"
done
cd /repo && git worktree remove --force $W; rm -rf $S
